#!/bin/sh
# Verifies the tools the checks need; nothing is compiled or fetched.
set -e
cd "$(dirname "$0")"
command -v java >/dev/null && [ -f /opt/veriftools/tla/tla2tools.jar ] && [ -f /opt/veriftools/tla/CommunityModules-deps.jar ] || { echo "java / TLC missing"; exit 1; }
PYTHONPATH=/repo /venv/bin/python -c "import xgi, numpy, networkx, scipy; print('xgi', xgi.__version__, 'from', xgi.__file__)"
mkdir -p evidence replays
chmod +x check
echo setup ok
