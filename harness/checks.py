"""Per-property checks built on the core pipeline (state-machine properties)."""
import json
import os
import random
import sys
import time
from collections import Counter

from . import common, core, kits
from .common import MachineryError, log

# which kits serve which property, and budgets per tier
CORE_PROPS = {
    "C01": {"kits": ["H"], "prefix": "C01:"},
    "C02": {"kits": ["DH"], "prefix": "C02:"},
    "C03": {"kits": ["SC"], "prefix": "C03:"},
    "C04": {"kits": ["H", "DH", "SC"], "prefix": "C04:"},
    "C05": {"kits": ["H", "DH", "SC"], "prefix": "C05:"},
    "C18": {"kits": ["H", "DH", "SC"], "prefix": "C18:", "ukey": "c18_", "freeze": True},
}
BUDGET = {
    "quick": {"s2c": 16000, "histories": 240, "length": 25},
    "thorough": {"s2c": 200000, "histories": 4000, "length": 30},  # ~3 GB of records per kit (600k / 12k was killed by the OOM killer)
}


def known_match(kf, prop, kitname, rec, clause):
    if kf.get("status") != "open" or kf["property"] != prop:
        return False
    if kf.get("kit") not in (None, kitname):
        return False
    if kf.get("op") not in (None, rec["op"]["name"]):
        return False
    if kf.get("clause") and not clause.startswith(kf["clause"]):
        return False
    if kf.get("res") not in (None, rec["res"]):
        return False
    when = kf.get("when")
    if when:
        fn = WHEN.get(when)
        if fn is None or not fn(rec):
            return False
    return True


def _members_lists(rec):
    op = rec["op"]
    out = [op["m"]] if op["m"] else []
    out += [it["m"] for it in op["items"]]
    return out


WHEN = {
    "none_member": lambda r: any(-1 in m for m in _members_lists(r)),
    "first_item_empty": lambda r: bool(r["op"]["items"]) and r["op"]["items"][0]["m"] == [] and r["op"]["fmt"] == 1,
    "becomes_empty": lambda r: True,
    "explicit_zero": lambda r: r["op"]["id"] == 0 or any(it["id"] == 0 for it in r["op"]["items"]),
}


def run_kit(kit, tier, seed_, budget, ukey=None, freeze=False, workers=common.NCPU):
    """model check + S->C + C->S + validation for one kit.  Returns (mc, recs, bad)."""
    t = common.Timer()
    # memory: several kits run side by side for the multi-class properties
    shared = workers < common.NCPU
    mc = core.model_check(kit, tier, ukey=ukey, workers=workers, heap=("3g", "2g") if shared else ("5g", "3g"))
    log(f"[{kit.name}] TLC: {mc['states']} distinct states, {mc['transitions']} transitions, depth {mc['depth']}, "
        f"{mc['emitted_states']} states emitted ({t():.0f}s)")
    recs, info = core.s2c(kit, mc, budget=budget["s2c"], seed_=seed_, jobs=workers)
    for r in recs:
        r["dir"] = "S2C"
    log(f"[{kit.name}] S->C: {len(recs)} of {info['pairs_total']} (state, op) inputs replayed ({t():.0f}s)")
    hrecs = core.c2s(kit, histories=budget["histories"], length=budget["length"], seed_=seed_,
                     extra={"freeze": True} if freeze else None, jobs=workers)
    for r in hrecs:
        r["dir"] = "C2S"
    log(f"[{kit.name}] C->S: {budget['histories']} histories, {len(hrecs)} calls ({t():.0f}s)")
    allrecs = recs + hrecs
    bad = common.validate_records(allrecs, kit.trace_module, jobs=3 if shared else workers)
    log(f"[{kit.name}] trace validation: {len(allrecs)} records, {len(bad)} with verdicts ({t():.0f}s)")
    info["histories"] = budget["histories"]
    info["history_calls"] = len(hrecs)
    if info.get("unrealised_states") and not any(r in bad for r in info["traced_build_rids"]):
        raise MachineryError(f"S->C builder could not realise {info['unrealised_states']} states although every one of its "
                             f"calls is admitted by the specification, e.g. {info['builderr_example']}")
    return mc, allrecs, bad, info


def selftest(kit, recs, bad):
    """Binding self-test: corrupt one field of accepted records; every corruption must be
    rejected at exactly that record (and by the clause that owns the corrupted field)."""
    rng = random.Random(7)
    directed = kit.name == "DH"
    E2N, N2E = ("tail", "nout") if directed else ("e2n", "n2e")
    good = [r for r in recs if r["rid"] not in bad and r["res"] == "ok" and r["post"]["edges"]
            and any(r["post"][E2N]) and r["pre"] != r["post"]]
    if len(good) < 3:
        if any(c[:4] in ("C01:", "C02:", "C03:", "C04:", "C05:", "C18:") for cl in bad.values() for c in cl):
            return {"skipped": "too few accepted records in a run with rejections"}
        raise MachineryError("self-test: not enough accepted records")
    muts = []
    for r in rng.sample(good, min(9, len(good))):
        m = json.loads(json.dumps(r))
        kind = len(muts) % 3
        post = m["post"]
        if kind == 0:  # a node forgets one membership
            idx = [i for i, es in enumerate(post[N2E]) if es]
            if not idx:
                continue
            post[N2E][idx[0]] = post[N2E][idx[0]][1:]
            expect = "Integrity"
        elif kind == 1:  # stale id counter
            ints = [e for e in post["edges"] if 0 <= e < 100]
            if not ints:
                continue
            post["uid"] = max(ints)
            expect = "UidFresh"
        else:  # an edge loses a member consistently on both sides: only the refinement notices
            i = next(i for i, ms in enumerate(post[E2N]) if ms)
            n = post[E2N][i][0]
            e = post["edges"][i]
            post[E2N][i] = post[E2N][i][1:]
            ni = post["nodes"].index(n)
            post[N2E][ni] = [x for x in post[N2E][ni] if x != e]
            expect = "C05:"
        m["rid"] = "selftest." + r["rid"] + f".{kind}"
        muts.append((m, expect))
    if not muts:
        raise MachineryError("self-test: no mutation applicable")
    verdicts = common.validate_records([m for m, _ in muts], kit.trace_module)
    fired = 0
    for m, expect in muts:
        v = verdicts.get(m["rid"], [])
        if any(expect in c for c in v):
            fired += 1
        else:
            raise MachineryError(f"binding self-test did not fire: corrupted {m['rid']} expected {expect}, got {v}")
    return {"corrupted_records": len(muts), "rejected": fired}


def core_check(prop, tier, seed_):
    spec = CORE_PROPS[prop]
    t = common.Timer()
    budget = BUDGET[tier]
    known = common.load_known()
    violations = []
    known_hits = Counter()
    cov = {"states": 0, "transitions": 0, "traces_validated_against_impl": 0, "evaluations": 0,
           "per_kit": {}, "samples": []}
    classes = set()
    tainted = unspecified = 0
    selftests = {}
    other_props = Counter()
    from concurrent.futures import ThreadPoolExecutor

    kits_ = [core._KITS[k] for k in spec["kits"] if k in core._KITS]
    with ThreadPoolExecutor(max_workers=len(kits_)) as tex:
        results = list(tex.map(lambda kit: run_kit(kit, tier, seed_, budget,
                                                   ukey=(spec["ukey"] + tier) if spec.get("ukey") else None,
                                                   freeze=spec.get("freeze", False),
                                                   workers=max(4, common.NCPU // len(kits_))), kits_))
    for kit, (mc, recs, bad, info) in zip(kits_, results):
        kname = kit.name
        try:
            selftests[kname] = selftest(kit, recs, bad)
        except MachineryError as ex:
            # a run that already rejects records reports them; mandatory only for a run that would pass
            if not any(c[:4] in ("C01:", "C02:", "C03:", "C04:", "C05:", "C18:") for cl in bad.values() for c in cl):
                raise
            selftests[kname] = {"failed_in_a_run_with_rejections": str(ex)[:300]}
        cov["states"] += mc["states"]
        cov["transitions"] += mc["transitions"]
        cov["traces_validated_against_impl"] += info["pairs_replayed"] + info["histories"]
        cov["evaluations"] += len(recs)
        cov["per_kit"][kname] = {
            "tlc_constants": mc["constants"], "tlc_states": mc["states"], "tlc_transitions": mc["transitions"],
            "tlc_depth": mc["depth"], "alphabet_size": len(mc["alphabet"]), "states_emitted": mc["emitted_states"],
            "s2c_inputs_total": info["pairs_total"], "s2c_inputs_replayed": info["pairs_replayed"],
            "s2c_exhaustive": info["exhaustive"], "c2s_histories": info["histories"],
            "c2s_calls": info["history_calls"], "invariants": kit.invariants, "action_properties": kit.properties,
            "gamma_families": sorted({r.get("gamma", "") for r in recs}),
        }
        opres = Counter((r["op"]["name"], r["res"]) for r in recs)
        cov["per_kit"][kname]["op_result_counts"] = {f"{a}->{b}": n for (a, b), n in sorted(opres.items())}
        # non-vacuity: every call of the model's alphabet was exercised on the implementation, and changed something
        never = sorted({o["name"] for o in mc["alphabet"]} - {r["op"]["name"] for r in recs})
        cov["per_kit"][kname]["alphabet_ops_never_replayed"] = never
        if never:
            raise MachineryError(f"[{kname}] alphabet operations never exercised: {never}")
        for r in recs:
            if core.nontrivial(r):
                classes.add((kname,) + core.shape_class(r))
        if not cov["samples"]:
            hs = [r for r in recs if r["dir"] == "C2S"][:6]
            cov["samples"] = [{"rid": r["rid"], "gamma": r["gamma"], "op": json.loads(core.op_digest(r["op"])),
                               "res": r["res"], "post_nodes": r["post"]["nodes"], "post_edges": r["post"]["edges"],
                               "post_members": r["post"].get("e2n", r["post"].get("tail"))} for r in hs]
        byrid = {r["rid"]: r for r in recs}
        for rid, clauses in bad.items():
            r = byrid[rid]
            if clauses == ["tainted"]:
                tainted += 1
                continue
            if clauses == ["unspecified"]:
                unspecified += 1
                continue
            own = [c for c in clauses if c.startswith(spec["prefix"])]
            for c in clauses:
                if not c.startswith(spec["prefix"]):
                    other_props[c.split(":")[0]] += 1
            if not own:
                continue
            kf = next((k for k in known if any(known_match(k, prop, kname, r, c) for c in own)
                       and all(any(known_match(k2, prop, kname, r, c) for k2 in known) for c in own)), None)
            if kf is not None:
                known_hits[kf["id"]] += 1
                continue
            violations.append((kname, r, own))
    cov["distinct_nontrivial"] = len(classes)
    cov["rule"] = ("inputs = (state, op) pairs enumerated by TLC over the bounded universe plus random histories; "
                   "a case is non-trivial when the call changes the state or raises; distinct = distinct "
                   "(class, #nodes, multiset of edge sizes, op name, bulk format, result, changed?)")
    cov["tainted_records_skipped"] = tainted
    cov["outside_specified_domain"] = unspecified
    cov["binding_selftest"] = selftests
    cov["clauses_owned_by_other_properties_seen"] = dict(other_props)
    cov["known_findings_hit"] = dict(known_hits)
    cov["exhaustive"] = False
    for k in known:
        if k["id"] in known_hits:
            print(f"KNOWN-FINDING: property={prop} {k['id']} {k['what']} (hit {known_hits[k['id']]}x)")
    # report violations (deduplicated by op name + clauses), each re-run once from its replay
    seen = set()
    nviol = 0
    for kname, r, own in violations:
        key = (kname, r["op"]["name"], tuple(own), r["res"])
        if key in seen:
            continue
        seen.add(key)
        nviol += 1
        path = common.write_replay(prop, {
            "property": prop, "tier": tier, "seed": seed_, "kit": kname, "direction": r["dir"], "gamma": r["gamma"],
            "clauses": own, "pre": r["pre"], "op": r["op"], "res": r["res"], "warn": r["warn"], "post": r["post"],
            "postanom": r["postanom"], "repo_head": common.repo_head()})
        print(f"VIOLATION property={prop} replay={path}")
        log(f"  {kname} {core.op_digest(r['op'])} -> {r['res']} clauses={own}")
    if prop in ("C01", "C02", "C03"):
        # explicit ids of unusual numeric kinds followed by automatic additions (the id universe of the model holds
        # small ints and labels only): the states reached are judged by the invariants of the class
        iviol, iinfo = special_ids_phase(prop)
        cov["special_numeric_ids"] = iinfo
        for (how, own), r in iviol.items():
            nviol += 1
            path = common.write_replay(prop, {"property": prop, "direction": "special-ids", "clauses": list(own), "record": r,
                                              "repo_head": common.repo_head()})
            print(f"VIOLATION property={prop} replay={path}")
            log(f"  {how} clauses={list(own)}")
    if tier == "thorough" and prop in ("C01", "C02", "C03", "C04"):
        sviol, sinfo = suite_trace(prop, tier)
        cov["repository_test_suite_traced"] = sinfo
        for (cls_, call_, own), r in sviol.items():
            nviol += 1
            path = common.write_replay(prop, {"property": prop, "direction": "suite", "clauses": list(own), "record": r,
                                              "repo_head": common.repo_head()})
            print(f"VIOLATION property={prop} replay={path}")
            log(f"  suite: {cls_}.{call_} in {r['test']} clauses={list(own)}")
    cov["violation_classes"] = nviol
    common.write_evidence(prop, tier_=tier, seed_=seed_, coverage=cov, wall_s=t(), violations=nviol,
                          assumptions=ASSUMPTIONS)
    return 1 if nviol else 0


def special_ids_phase(prop):
    from . import c04prov

    want = {"C01": "Hypergraph.", "C02": "DiHypergraph.", "C03": "SimplicialComplex."}[prop]
    cls = {"C01": "H", "C02": "DH", "C03": "SC"}[prop]
    recs = []
    for si, (how, make) in enumerate(c04prov.special_id_sources()):
        if not how.startswith(want):
            continue
        for r in c04prov.follow_up(f"ids.{si}", how, make):
            if r["post"] == nets_null():
                continue
            recs.append({"rid": r["rid"], "cls": cls, "call": how, "test": "special ids", "post": r["post"], "anom": r["anom"],
                         "closed": True})
    bad = common.validate_records(recs, "TraceInvD" if cls == "DH" else "TraceInvH", jobs=2)
    byrid = {r["rid"]: r for r in recs}
    viol = {}
    for rid, cl in bad.items():
        cl = [c.replace("C01:", prop + ":", 1) if c.startswith("C01:anomaly") else c for c in cl]
        own = [c for c in cl if c.startswith(prop + ":")]
        if own:
            viol.setdefault((byrid[rid]["call"], tuple(own)), byrid[rid])
    return viol, {"records": len(recs), "with_verdicts": len(bad)}


def nets_null():
    from . import nets

    return nets.NULL


def suite_trace(prop, tier):
    """thorough tier: the repository's own test-suite runs under the tracing plugin; the states it
    reaches are judged by the model's invariants (TraceInvH / TraceInvD).  Returns (violations, info)."""
    import subprocess
    import tempfile

    out = os.path.join(tempfile.mkdtemp(prefix="suite-", dir=common.scratch()), "trace.ndjson")
    env = dict(os.environ, XGI_VERIF_TRACE="1", XGI_VERIF_TRACE_OUT=out,
               PYTHONPATH=common.VERIF + os.pathsep + common.REPO)
    cmd = [sys.executable, "-m", "pytest", "-q", "-p", "no:cacheprovider", "-p", "harness.pytest_trace", "--timeout=900",
           "--continue-on-collection-errors", "tests"]
    p = subprocess.run(cmd, cwd=common.REPO, env=env, capture_output=True, text=True, timeout=3000)
    recs = [json.loads(l) for l in open(out)] if os.path.exists(out) else []
    if not recs:
        raise MachineryError("suite tracing produced no record:\n" + p.stdout[-2000:])
    und = [r for r in recs if r["cls"] != "DH"]
    dire = [r for r in recs if r["cls"] == "DH"]
    bad = common.validate_records(und, "TraceInvH")
    bad.update(common.validate_records(dire, "TraceInvD"))
    byrid = {r["rid"]: r for r in recs}
    viol = {}
    for rid, cl in bad.items():
        own = [c for c in cl if c.startswith(prop + ":")]
        if own:
            viol.setdefault((byrid[rid]["cls"], byrid[rid]["call"], tuple(own)), byrid[rid])
    return viol, {"suite_states_recorded": len(recs), "suite_summary": p.stdout.strip().split("\n")[-1][:200],
                  "suite_states_with_verdicts": len(bad)}


ASSUMPTIONS = [
    "TLC (explicit-state model checker) evaluates the TLA+ operators correctly",
    "the projection (harness/hg.py proj) reports the raw tables and the public views faithfully; it is total and "
    "turns every irregularity into an anomaly that the trace specification rejects",
    "bounded universes: exhaustive only inside the constants listed per kit; beyond them random histories",
    "python set iteration order, partially applied raising bulk calls and id-counter skips are not fixed by the "
    "documentation and are left open in the specification",
]


def replay(prop, path):
    p = json.load(open(path))
    kit = core._KITS[p["kit"]]
    fam = next(f for f in kit.families if f().name == p["gamma"].replace("+relabelled", ""))
    g = fam()
    H = kit.build(p["pre"], g)
    pre, preanom = kit.proj(H, g)
    res, nwarn, g2 = kit.call(H, p["op"], g, random.Random(0))
    if res == "ok":
        g = g2
    post, postanom = kit.proj(H, g)
    rec = {"rid": "replay", "gamma": g.name, "pre": pre, "preanom": preanom, "op": p["op"], "res": res,
           "warn": nwarn, "post": post, "postanom": postanom}
    bad = common.validate_records([rec], kit.trace_module)
    clauses = bad.get("replay", [])
    own = [c for c in clauses if c.startswith(prop + ":")]
    print(json.dumps({"res": res, "clauses": clauses}, indent=1))
    if own:
        print(f"VIOLATION property={prop} replay={path}")
        return 1
    return 0
