"""Binding for xgi.SimplicialComplex (spec/SC.tla)."""
import itertools
import random
import warnings

import xgi

from . import hg
from .gamma import ATTR_KEYS
from .hg import classify, item, mkop

proj = hg.proj


def build(j, g, cls=xgi.SimplicialComplex):
    S = cls()
    for n, a in zip(j["nak"], j["nattr"]):
        S.add_node(g.node(n), **g.attrs(a, "n"))
    with warnings.catch_warnings():
        warnings.simplefilter("ignore")
        # one bulk call with explicit ids: in a closed state every face is given explicitly
        S.add_simplices_from([([g.node(n) for n in mem], g.edge(e), g.attrs(a, "e"))
                              for e, mem, a in zip(j["edges"], j["e2n"], j["eattr"])])
    for k, v in g.attrs(j["gattr"], "g").items():
        S[k] = v
    S._edge_uid = itertools.count(j["uid"])
    if j["frozen"]:
        S.freeze()
    return S


def obs(S, g, post, rng):
    """has_simplex answers on the post-state for a sample of node sets"""
    nodes = post["nodes"]
    cands = []
    for m in post["e2n"][:6]:
        cands.append(list(m))
        if len(m) > 1:
            cands.append(list(m[1:]))
    for _ in range(4):
        if nodes:
            cands.append(sorted(set(rng.choice(nodes) for _ in range(rng.randrange(1, 4)))))
    cands += [c + c[:1] for c in cands[:4] if c]  # the same node set, given with a repetition
    out = []
    for c in cands:
        if -2 in c:
            continue
        try:
            ans = bool(S.has_simplex(hg._present([g.node(x) for x in c], rng)))
        except Exception:  # noqa: BLE001
            ans = False
            c = c + [-7]  # cannot be a simplex of the model: forces a mismatch
        out.append([c, ans])
    return {"has": out}


def call(S, op, g, rng=None):
    rng = rng or random.Random(0)
    name = op["name"]
    newg = g
    N, E, A = g.node, g.edge, g.attrs

    def members(m):
        return hg._present([N(x) for x in m], rng)

    def ebunch(fmt, items):
        out = []
        for it in items:
            m = members(it["m"])
            if fmt == 1:
                out.append(m)
            elif fmt == 2:
                out.append((m, E(it["id"])))
            elif fmt == 3:
                out.append((m, A(it["a"], "e")))
            elif fmt == 4:
                out.append((m, E(it["id"]), A(it["a"], "e")))
        if fmt == 5:
            return {E(it["id"]): members(it["m"]) for it in items}
        return out if rng.random() < 0.7 else iter(out)

    def mo(k):
        return None if k == -1 else k

    hg.begin_call()
    with warnings.catch_warnings(record=True) as wlist:
        warnings.simplefilter("always")
        try:
            if name == "add_node":
                S.add_node(N(op["n"]), **A(op["a"], "n"))
            elif name == "add_nodes_from":
                if op["fmt"] == 1:
                    arg = [N(it["id"]) for it in op["items"]]
                else:
                    arg = [(N(it["id"]), ([5] if (op["b4"] and it is op["items"][-1]) else
                                         list(A(it["a"], "n").items()) if op["b2"] else A(it["a"], "n"))) for it in op["items"]]
                S.add_nodes_from(hg.present_ids(arg, rng) if op["fmt"] == 1 else (arg if rng.random() < 0.6 else iter(arg)),
                                 **A(op["a"], "n"))
            elif name == "remove_node":
                S.remove_node(N(op["n"]))
            elif name == "remove_nodes_from":
                S.remove_nodes_from(hg.present_ids([N(x) for x in op["ns"]], rng))
            elif name in ("set_node_attributes", "set_edge_attributes"):
                tbl = "n" if name == "set_node_attributes" else "e"
                L = N if tbl == "n" else E
                f = getattr(S, name)
                fmt = op["fmt"]
                if fmt == 1:
                    f(g.attr_value(op["v"], tbl), name=ATTR_KEYS[op["k"]])
                elif fmt == 2:
                    f({L(i): g.attr_value(v, tbl) for i, v in op["kv"]}, name=ATTR_KEYS[op["k"]])
                elif fmt == 3:
                    f({L(i): A(a, tbl) for i, a in op["kd"]})
                else:
                    f(5)
            elif name == "add_simplex":
                if op["b3"]:
                    S.add_simplex(5, idx=E(op["id"]))
                else:
                    S.add_simplex(members(op["m"]), idx=E(op["id"]), **A(op["a"], "e"))
            elif name == "add_simplices_from":
                S.add_simplices_from(ebunch(op["fmt"], op["items"]), max_order=mo(op["n2"]), **A(op["a"], "e"))
            elif name in ("add_weighted_simplices_from", "add_weighted_edges_from"):
                eb = [[N(x) for x in it["m"]] + [g.attr_value(it["w"], "e")] for it in op["items"]]
                getattr(S, name)(eb, max_order=mo(op["n2"]), weight=ATTR_KEYS[op["k"]], **A(op["a"], "e"))
            elif name == "remove_simplex_id":
                S.remove_simplex_id(E(op["e"]))
            elif name == "remove_simplex_ids_from":
                S.remove_simplex_ids_from(hg.present_ids([E(x) for x in op["ns"]], rng))
            elif name == "close":
                S.close()
            elif name == "cleanup":
                S.cleanup(isolates=op["b1"], connected=op["b4"], relabel=op["b5"], in_place=True)
                if op["b5"]:
                    newg = g.after_relabel()
            elif name == "clear":
                S.clear(remove_net_attr=op["b1"])
            elif name == "convert_labels_to_integers":
                xgi.convert_labels_to_integers(S, in_place=True)
                newg = g.after_relabel()
            elif name == "largest_connected_hypergraph":
                xgi.largest_connected_hypergraph(S, in_place=True)
            elif name == "add_node_to_edge":
                S.add_node_to_edge(E(op["e"]), N(op["n"]))
            elif name == "add_edge":
                if op["b3"]:
                    S.add_edge(5, idx=E(op["id"]))
                else:
                    S.add_edge(members(op["m"]), idx=E(op["id"]), **A(op["a"], "e"))
            elif name == "add_edges_from":
                S.add_edges_from(ebunch(op["fmt"], op["items"]), max_order=mo(op["n2"]), **A(op["a"], "e"))
            elif name == "remove_edge":
                S.remove_edge(E(op["e"]))
            elif name == "remove_edges_from":
                S.remove_edges_from([E(x) for x in op["ns"]])
            elif name == "set_net_attr":
                S[ATTR_KEYS[op["k"]]] = g.attr_value(op["v"], "g")
            elif name == "freeze":
                S.freeze()
            else:
                raise NotImplementedError(name)
            res = "ok"
        except NotImplementedError:
            raise
        except BaseException as ex:  # noqa: BLE001
            if isinstance(ex, (KeyboardInterrupt, SystemExit)):
                raise
            res = classify(ex)
    hg.end_call()
    return res, len(wlist), newg


def rand_op(rng, j, nn=6):
    from . import drive_hg
    from .drive_hg import rand_attr, rand_id, rand_item_attr

    nodes, edges = j["nodes"], j["edges"]
    names = [
        ("add_node", 2), ("add_nodes_from", 1), ("remove_node", 4), ("remove_nodes_from", 1.5),
        ("set_node_attributes", 1), ("set_edge_attributes", 1), ("add_simplex", 12), ("add_simplices_from", 12),
        ("remove_simplex_id", 6), ("remove_simplex_ids_from", 3), ("close", 1), ("cleanup", 1.5), ("clear", 0.2),
        ("convert_labels_to_integers", 0.6), ("largest_connected_hypergraph", 0.8), ("add_node_to_edge", 0.3),
        ("add_edge", 1), ("add_edges_from", 1), ("remove_edge", 0.7), ("remove_edges_from", 0.5),
        ("add_weighted_simplices_from", 1.5), ("add_weighted_edges_from", 0.4),
        ("set_net_attr", 0.3),
    ]
    name = rng.choices([n for n, _ in names], [w for _, w in names])[0]

    def rid():
        x = rand_id(rng, j)
        return x if x < 1000 else 3

    def simplex(allow_none=False):
        r = rng.random()
        if r < 0.25 and j["e2n"]:
            m = list(rng.choice(j["e2n"]))  # already present / overlapping
            if m and rng.random() < 0.5:
                m = m[:-1] + [rng.randrange(nn)]
        else:
            k = rng.choice([0, 1, 2, 2, 3, 3, 3, 4, 4, 5])
            m = rng.sample(range(nn), min(k, nn))
        if allow_none and rng.random() < 0.04:
            m = m + [-1]
        if rng.random() < 0.2 and m:
            m = m + [m[0]]  # repetition in the iterable
        return m

    anyedge = lambda: rid() if rng.random() < 0.2 or not edges else rng.choice(edges)  # noqa: E731
    if name in ("add_node", "add_nodes_from", "remove_node", "remove_nodes_from", "set_node_attributes",
                "set_edge_attributes", "clear", "set_net_attr", "convert_labels_to_integers",
                "largest_connected_hypergraph"):
        return drive_hg.rand_op(rng, j, nn, force=name)
    if name in ("add_simplex", "add_edge"):
        if rng.random() < 0.02:
            return mkop(name, b3=True)
        return mkop(name, m=simplex(True), id=-1 if rng.random() < 0.55 else rid(), a=rand_attr(rng))
    if name in ("add_simplices_from", "add_edges_from"):
        fmt = rng.choice([1, 1, 2, 3, 4, 4, 5])
        its = []
        for k in range(rng.choice([0, 1, 2, 2, 3, 4])):
            its.append(item(m=simplex(allow_none=(k == 0)), id=rid() if fmt in (2, 4, 5) else -1,
                            a=rand_item_attr(rng) if fmt in (3, 4) else []))
        if fmt == 5:
            seen, u = set(), []
            for it in its:
                if it["id"] not in seen:
                    seen.add(it["id"])
                    u.append(it)
            its = u
        return mkop(name, fmt=fmt, items=its, n2=rng.choice([-1, -1, 0, 1, 2, 2, 3]), a=rand_attr(rng))
    if name in ("add_weighted_simplices_from", "add_weighted_edges_from"):
        its = []
        for k in range(rng.choice([0, 1, 2, 3])):
            m = [x for x in dict.fromkeys(simplex(False)) if x != -1]
            its.append(item(m=m, w=[0, rng.randrange(1, 5)]))
        # keyword attributes must not clash with the weight parameter's own name
        return mkop(name, items=its, k=2, n2=rng.choice([-1, -1, 1, 2]), a=[p for p in rand_attr(rng) if p[0] != 2])
    if name in ("remove_simplex_id", "remove_edge"):
        return mkop(name, e=anyedge())
    if name in ("remove_simplex_ids_from", "remove_edges_from"):
        return mkop(name, ns=list(dict.fromkeys(anyedge() for _ in range(rng.randrange(0, 4)))))
    if name == "cleanup":
        return mkop(name, b1=rng.random() < 0.5, b4=rng.random() < 0.5, b5=rng.random() < 0.5)
    if name == "add_node_to_edge":
        return mkop(name, e=anyedge(), n=rng.randrange(nn))
    return mkop(name)
