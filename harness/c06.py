"""C06: views and statistics are live and mutually consistent."""
import random
from concurrent.futures import ProcessPoolExecutor

import xgi

from . import common, core, drive_hg, kits, obs06, obscore, sc
from .common import log

BUD = {"quick": {"histories": 160, "length": 25, "shapes": {"NN": 3, "ME": 3, "MinSize": 0}, "max_shapes": 400},
       "thorough": {"histories": 4000, "length": 35, "shapes": {"NN": 4, "ME": 4, "MinSize": 0}, "max_shapes": 20000}}


def _hist_worker(args):
    kitname, hids, seed_, length = args
    kit = core._KITS[kitname]
    out = []
    for hid in hids:
        rng = random.Random((seed_ << 20) + hid)
        g = kit.families[hid % len(kit.families)]()
        recs = drive_hg.run_history(f"{kitname}{hid}", rng, length, gamma=g, nn=kit.nn, cls=kit.cls, call=kit.call,
                                    proj=kit.proj, gen=kit.gen,
                                    obs=obs06.observe_directed if kitname == "DH" else obs06.observe)
        for r in recs:
            if r.get("obs") or r["postanom"]:
                out.append({"rid": r["rid"], "what": f"{kitname} after {r['op']['name']}", "gamma": r["gamma"],
                            "post": r["post"], "postanom": [a for a in r["postanom"] if not a.startswith("view:")],
                            "viewanom": [a for a in r["postanom"] if a.startswith("view:")], "obs": r["obs"],
                            "replay": {"cls": kitname, "gamma": r["gamma"], "j": r["post"]}})
    return out


def _shape_worker(args):
    states, base, seed_ = args
    out = []
    for k, j in enumerate(states):
        rng = random.Random(seed_ * 7919 + base + k)
        g = kits.FAM_H[(base + k) % len(kits.FAM_H)]()
        for vname, emap in obscore.edge_id_variants(j, rng)[: 2 + (k % 3)]:
            H = obscore.realise(j, g, rng, shuffle=True, edge_id_map=emap)
            post, anom = kits.HG_KIT.proj(H, g)
            o = obs06.observe(H, g, post, rng)
            out.append({"rid": f"shape{base + k}.{vname}", "what": f"shape under {g.name}/{vname}", "gamma": g.name,
                        "post": post, "postanom": [a for a in anom if not a.startswith("view:")],
                        "viewanom": [a for a in anom if a.startswith("view:")], "obs": o["obs"],
                        "replay": {"cls": "H", "gamma": g.name, "j": post}})
    return out


def run(tier, seed_):
    t = common.Timer()
    b = BUD[tier]
    shapes, mc = obscore.enumerate_shapes("MC_ShapesH", b["shapes"], max_states=b["max_shapes"])
    log(f"[C06] TLC enumerated {mc['states']} hypergraph states ({t():.0f}s)")
    recs = []
    jobs = common.NCPU
    with ProcessPoolExecutor(max_workers=jobs) as ex:
        chunks = [(shapes[i::jobs], i * 100003, seed_) for i in range(jobs)]
        for part in ex.map(_shape_worker, [c for c in chunks if c[0]]):
            recs += part
        for kname in ("H", "SC", "DH"):
            ids = list(range(b["histories"] // (1 if kname == "H" else 2)))
            for part in ex.map(_hist_worker, [(kname, ids[i::jobs], seed_, b["length"]) for i in range(jobs) if ids[i::jobs]]):
                recs += part
    log(f"[C06] {len(recs)} observation records ({t():.0f}s)")

    drecs = [r for r in recs if r["rid"].startswith("DH")]
    recs = [r for r in recs if not r["rid"].startswith("DH")]
    dbad = common.validate_records(drecs, "TraceC06D")
    log(f"[C06] directed: {len(drecs)} records, {len(dbad)} with verdicts ({t():.0f}s)")
    dviol = {}
    for rid, cl in dbad.items():
        own = [c for c in cl if c.startswith("C06:")]
        if own:
            dviol.setdefault(tuple(own), rid)
    dby = {r["rid"]: r for r in drecs}
    for cl, rid in dviol.items():
        path = common.write_replay("C06", {"property": "C06", "clauses": list(cl), "record": dby[rid],
                                           "trace_module": "TraceC06D", "repo_head": common.repo_head()})
        print(f"VIOLATION property=C06 replay={path}")
        log(f"  {rid} {dby[rid]['what']} clauses={list(cl)}")

    def selftest(records, bad):
        import json

        good = [r for r in records if r["rid"] not in bad and len(r["post"]["nodes"]) >= 2 and r["post"]["edges"]]
        muts = []
        for k, r in enumerate(good[:4]):
            m = json.loads(json.dumps(r))
            if k % 2 == 0:
                m["obs"]["degl"] = [d + 1 for d in m["obs"]["degl"]]  # a stale / wrong degree
                exp = "C06:degree.aslist"
            else:
                m["obs"]["vn"] = list(reversed(m["obs"]["vn"]))  # view order
                exp = "C06:view.nodes.held"
            m["rid"] = f"selftest{k}"
            muts.append((m, exp))
        v = common.validate_records([m for m, _ in muts], "TraceC06")
        for m, exp in muts:
            if exp not in v.get(m["rid"], []):
                raise common.MachineryError(f"C06 self-test did not fire: {exp} not in {v.get(m['rid'])}")
        return {"corrupted_records": len(muts), "rejected": len(muts)}

    def class_of(r):
        p = r["post"]
        return (r["what"].split(" ")[0], len(p["nodes"]), tuple(sorted(len(m) for m in p["e2n"])), r["gamma"])

    samples = [{"rid": r["rid"], "what": r["what"], "nodes": r["post"]["nodes"], "edges": r["post"]["edges"],
                "members": r["post"]["e2n"], "degree_asdict": r["obs"]["deg"], "maximal": r["obs"]["max"]}
               for r in recs[:3] + recs[-3:]]
    rc = obscore.report(
        "C06", tier, seed_, t, records=recs, trace_module="TraceC06", mc_stats=mc,
        rule="states = every hypergraph enumerated by TLC (MC_ShapesH) realised under 5 label families, edge-id "
             "relabellings and shuffled insertion orders, plus every state reached by random edit histories of "
             "Hypergraph and SimplicialComplex with view/stat objects held since the start; distinct = (source, "
             "#nodes, multiset of edge sizes, label family)",
        samples=samples, class_of=class_of, selftest=selftest,
        assumptions=["TLC evaluates the set-theoretic definitions of spec/Derived.tla",
                     "observer harness/obs06.py maps API answers back to abstract ids faithfully",
                     "directed statistics are validated by TraceC06D on DiHypergraph histories"],
        extra={"directed_records": len(drecs), "directed_violation_classes": len(dviol)})
    if dviol:
        import json as _json

        ev = _json.load(open(f"{common.EVID}/C06.json"))
        ev["violations"] += len(dviol)
        _json.dump(ev, open(f"{common.EVID}/C06.json", "w"), indent=1)
    return 1 if (rc or dviol) else 0
