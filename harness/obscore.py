"""Shared machinery of the observation properties (value-returning API): state sources
(TLC shape enumerators, random histories), realisation of an abstract state under a gamma
and an insertion order, generic validate-and-report."""
import itertools
import json
import os
import random
import subprocess
import tempfile
import time
import warnings
from collections import Counter
from concurrent.futures import ProcessPoolExecutor

import xgi

from . import common, core
from .common import MachineryError, log


# ---------------------------------------------------------------------------
# TLC shape enumerators
# ---------------------------------------------------------------------------
def enumerate_shapes(module, constants, invariants=("InvIntegrity",), workers=8, timeout=3600, max_states=None):
    """Run spec/<module>.tla (a state enumerator with INVARIANT EmitState) and return
    (list of J states, stats)."""
    d = tempfile.mkdtemp(prefix="shapes-", dir=common.scratch())
    cfg = os.path.join(d, "shapes.cfg")
    lines = ["SPECIFICATION Spec", "CONSTANTS"] + [f"  {k} = {v}" for k, v in constants.items()]
    lines += [f"INVARIANT {i}" for i in invariants] + ["INVARIANT EmitState", "CHECK_DEADLOCK FALSE"]
    open(cfg, "w").write("\n".join(lines) + "\n")
    t0 = time.time()
    p = subprocess.run(core._tlc_cmd(module, cfg, os.path.join(d, "meta"), workers, "3g"), capture_output=True,
                       text=True, cwd=common.SPEC, timeout=timeout)
    out = p.stdout + p.stderr
    states, seen, rest = [], set(), []
    for line in out.splitlines():
        s = line.strip()
        if len(s) > 2 and s[0] == '"' and s[-1] == '"' and s[1] == "{":
            if s in seen:
                continue
            seen.add(s)
            obj = json.loads(json.loads(s))
            if obj.get("kind") == "state":
                states.append(obj["st"])
        else:
            rest.append(line)
    text = "\n".join(rest)
    err = common.tlc_error(text)
    if err:
        raise MachineryError(f"{module}: {err}\n{text[-3000:]}")
    gen, distinct, depth = common.tlc_stats(text)
    if not states:
        raise MachineryError(f"{module} emitted no state")
    if max_states and len(states) > max_states:
        rng = random.Random(0)
        states = rng.sample(states, max_states)
    return states, {"states": distinct, "transitions": gen, "depth": depth, "constants": constants,
                    "module": module, "wall_s": round(time.time() - t0, 1)}


# ---------------------------------------------------------------------------
# realisation of an abstract undirected state
# ---------------------------------------------------------------------------
PAST = os.environ.get("XGI_VERIF_NO_PAST") is None  # shuffled realisations may be networks with a past
_SCRATCH = "__scratch__"


def realise(j, g, rng=None, cls=xgi.Hypergraph, shuffle=True, edge_id_map=None):
    """Build the network described by the J state under gamma g.  With `shuffle`, nodes,
    edges and members are inserted in a random order (the result's view order is then a
    permutation of j's).  edge_id_map: abstract edge id -> abstract edge id (relabelling
    of edge ids inside the abstract universe, e.g. a permutation of 0..m-1 or gaps)."""
    rng = rng or random.Random(0)
    H = cls()
    nodes = list(zip(j["nak"], j["nattr"]))
    edges = list(zip(j["edges"], j["e2n"], j["eattr"]))
    if shuffle:
        rng.shuffle(nodes)
        rng.shuffle(edges)
    em = edge_id_map or {}
    for n, a in nodes:
        H.add_node(g.node(n), **g.attrs(a, "n"))
    with warnings.catch_warnings():
        warnings.simplefilter("ignore")
        if cls is xgi.SimplicialComplex:
            H.add_simplices_from([([g.node(n) for n in mem], g.edge(em.get(e, e)), g.attrs(a, "e"))
                                  for e, mem, a in edges])
        else:
            for e, mem, a in edges:
                mem = list(mem)
                if shuffle:
                    rng.shuffle(mem)
                eid = g.edge(em.get(e, e))
                r = rng.random() if (shuffle and PAST and mem) else 1.0
                if r < 0.1 and len(mem) >= 2:
                    # a network with a past: the edge grew to its members one node at a time ...
                    H.add_edge([g.node(n) for n in mem[:-1]], idx=eid, **g.attrs(a, "e"))
                    H.add_node_to_edge(eid, g.node(mem[-1]))
                elif r < 0.2:
                    # ... or lost a member that a scratch node had in it, and the scratch node went away again
                    H.add_edge([g.node(n) for n in mem] + [_SCRATCH], idx=eid, **g.attrs(a, "e"))
                    H.remove_node(_SCRATCH, strong=False)
                elif r < 0.28:
                    # ... or a scratch edge over the same members (named, so the id counter is not touched) was removed
                    H.add_edge([g.node(n) for n in mem], idx=_SCRATCH)
                    H.add_edge([g.node(n) for n in mem], idx=eid, **g.attrs(a, "e"))
                    H.remove_edge(_SCRATCH)
                else:
                    H.add_edge([g.node(n) for n in mem], idx=eid, **g.attrs(a, "e"))
    for k, v in g.attrs(j["gattr"], "g").items():
        H[k] = v
    return H


def rewire_in_place(H, rng):
    """a count-preserving edit on the same object (one node of one edge replaced by another node): whatever was
    computed before must not be served again.  Returns True when an edit was made."""
    cand = [(e, n, m) for e in H.edges for n in H._edge[e] for m in H.nodes if m not in H._edge[e]]
    if not cand:
        return False
    e, n, m = rng.choice(cand)
    H.remove_node_from_edge(e, n, remove_empty=False)
    H.add_node_to_edge(e, m)
    return True


def edge_id_variants(j, rng):
    """relabellings of the edge ids inside the abstract universe: identity, a non-identity
    permutation of the same ids, gapped ids, string-like ids"""
    ids = list(j["edges"])
    out = [("identity", {})]
    if len(ids) >= 2:
        perm = ids[:]
        while perm == ids:
            rng.shuffle(perm)
        out.append(("permuted", dict(zip(ids, perm))))
    out.append(("gapped", {e: 3 + 4 * k for k, e in enumerate(ids)}))
    out.append(("strings", {e: 100 + k for k, e in enumerate(ids)}))
    if len(ids) >= 2:  # ids that cannot be ordered against each other (automatic ints plus named edges)
        out.append(("ints and strings", {e: (100 + k if k % 2 else 3 * k) for k, e in enumerate(ids)}))
    return out


# ---------------------------------------------------------------------------
# generic validate + report
# ---------------------------------------------------------------------------
def report(prop, tier, seed_, t, *, records, trace_module, mc_stats, rule, samples, assumptions, extra=None,
           class_of=None, selftest=None, when=None):
    """records: list of dicts with unique rid (sent to TLC as they are).
    Validates, handles known findings, prints VIOLATION lines, writes evidence."""
    bad = common.validate_records(records, trace_module)
    log(f"[{prop}] trace validation: {len(records)} records, {len(bad)} with verdicts ({t():.0f}s)")
    st = None
    if selftest:
        try:
            st = selftest(records, bad)
        except StopIteration:
            # nothing suitable among the accepted records (typical when most records are rejected): the
            # rejections below are reported; without any rejection the self-test is mandatory
            if not any(c.startswith(prop + ":") for cl in bad.values() for c in cl):
                raise MachineryError(f"{prop} binding self-test found no accepted record to corrupt")
            st = {"skipped": "no accepted record suitable for corruption in a run with rejections"}
        except MachineryError as ex:
            # a run that already rejects records of this property reports them; the self-test is only
            # mandatory for a run that would otherwise pass
            if not any(c.startswith(prop + ":") for cl in bad.values() for c in cl):
                raise
            st = {"failed_in_a_run_with_rejections": str(ex)[:300]}
    known = [k for k in common.load_known() if k["property"] == prop and k.get("status") == "open"]
    byrid = {r["rid"]: r for r in records}
    known_hits = Counter()
    viol = {}
    tainted = 0
    other = Counter()
    for rid, clauses in bad.items():
        if clauses in (["tainted"], ["unspecified"]):
            tainted += 1
            continue
        own = [c for c in clauses if c.startswith(prop + ":")]
        for c in clauses:
            if not c.startswith(prop + ":"):
                other[c.split(":")[0]] += 1
        rest = []
        for c in own:
            kf = next((k for k in known if c.startswith(k["clause"]) and (not k.get("when") or (
                when and when.get(k["when"]) and when[k["when"]](byrid[rid])))), None)
            if kf:
                known_hits[kf["id"]] += 1
            else:
                rest.append(c)
        if rest:
            key = (tuple(rest), byrid[rid].get("what", "").split("(")[0].split(" ")[0])
            viol.setdefault(key, (rid, rest))
    for k in known:
        if k["id"] in known_hits:
            print(f"KNOWN-FINDING: property={prop} {k['id']} {k['what']} (hit {known_hits[k['id']]}x)")
    for key, (rid, rest) in viol.items():
        path = common.write_replay(prop, {"property": prop, "tier": tier, "seed": seed_, "clauses": rest,
                                          "record": byrid[rid], "trace_module": trace_module,
                                          "repo_head": common.repo_head()})
        print(f"VIOLATION property={prop} replay={path}")
        log(f"  {rid} {byrid[rid].get('what', '')} clauses={rest}")
    classes = set()
    for r in records:
        classes.add(class_of(r) if class_of else r["rid"].split(".")[0])
    cov = {
        "states": mc_stats.get("states", 0), "transitions": mc_stats.get("transitions", 0),
        "traces_validated_against_impl": len(records), "evaluations": len(records),
        "distinct_nontrivial": len(classes), "rule": rule, "samples": samples,
        "tlc_runs": mc_stats.get("runs", [mc_stats]), "tainted_records_skipped": tainted,
        "known_findings_hit": dict(known_hits), "violation_classes": len(viol),
        "clauses_owned_by_other_properties_seen": dict(other), "exhaustive": False,
    }
    if st is not None:
        cov["binding_selftest"] = st
    if extra:
        cov.update(extra)
    common.write_evidence(prop, tier_=tier, seed_=seed_, coverage=cov, wall_s=t(), violations=len(viol),
                          assumptions=assumptions)
    return 1 if viol else 0


def replay_record(prop, path):
    """Replay of an observation-type violation: the logged record is re-validated by TLC (is the verdict
    reproducible?) and then the whole check is re-executed on the current tree with the recorded seed and tier
    (does the current tree still produce a record with these clauses?)."""
    p = json.load(open(path))
    bad = common.validate_records([p["record"]], p["trace_module"])
    cl = [c for c in bad.get(p["record"]["rid"], []) if c.startswith(prop + ":")]
    print(json.dumps({"logged_record_clauses": cl}))
    if not cl:
        raise MachineryError("the logged record is accepted by the trace specification: not a reproducible verdict")
    from . import registry

    os.environ["XGI_VERIF_EVIDENCE"] = tempfile.mkdtemp(prefix="replay-ev-", dir=common.scratch())
    common.EVID = os.environ["XGI_VERIF_EVIDENCE"]
    return registry.run(prop, p.get("tier", "quick"), int(p.get("seed", 0)))
