"""property id -> check function"""
from . import checks


def run(prop, tier, seed_, replay=None):
    if prop == "C04" and not replay:
        from . import c04prov

        return c04prov.run(tier, seed_)
    if prop == "C18" and not replay:
        from . import c18

        return c18.run(tier, seed_)
    if prop == "X01":
        from . import x01

        return x01.run(tier, seed_)
    if prop == "X02":
        from . import x02

        return x02.run(tier, seed_)
    if prop in checks.CORE_PROPS:
        if replay:
            return checks.replay(prop, replay)
        return checks.core_check(prop, tier, seed_)
    from . import obscore

    if replay:
        return obscore.replay_record(prop, replay)
    if prop == "C06":
        from . import c06

        return c06.run(tier, seed_)
    if prop == "C10":
        from . import c10

        return c10.run(tier, seed_)
    if prop == "C11":
        from . import c10

        return c10.run_c11(tier, seed_)
    if prop == "C12":
        from . import c12

        return c12.run(tier, seed_)
    if prop == "C13":
        from . import c13

        return c13.run(tier, seed_)
    if prop == "C14":
        from . import c14

        return c14.run(tier, seed_)
    if prop == "C15":
        from . import c15

        return c15.run(tier, seed_)
    if prop == "C09":
        from . import c09

        return c09.run(tier, seed_)
    if prop == "C16":
        from . import c16

        return c16.run(tier, seed_)
    if prop == "C17":
        from . import c17

        return c17.run(tier, seed_)
    if prop == "C20":
        from . import c20

        return c20.run(tier, seed_)
    if prop == "C19":
        from . import c19

        return c19.run(tier, seed_)
    if prop == "C08":
        from . import c08

        return c08.run(tier, seed_)
    if prop == "C07":
        from . import nets

        return nets.run(tier, seed_)
    raise SystemExit(f"unknown property {prop}")
