"""property id -> check function"""
from . import checks


def run(prop, tier, seed_, replay=None):
    if prop in checks.CORE_PROPS:
        if replay:
            return checks.replay(prop, replay)
        return checks.core_check(prop, tier, seed_)
    raise SystemExit(f"unknown property {prop}")
