"""C08: the read-only API never mutates the network it is given.

The public surface is enumerated by introspection (functions of the xgi namespace whose first
parameter receives a network, view and stat accessors, operators, in_place=False variants);
each callable is invoked on realised TLC-enumerated states and the input's full projection
before and after is sent to TLC (TraceNets, kind "query": C08:Unchanged)."""
import inspect
import json
import os
import random
import signal
import tempfile
import warnings
from concurrent.futures import ProcessPoolExecutor

import xgi

from . import common, dhg, hg, kits, nets, obscore, sc
from .common import log
from .gamma import Gamma

NET_PARAMS = {"H", "S", "SC", "net", "data"}
# documented as in-place / internal helpers, or not taking a network
EXCLUDE = {"update_uid_counter"}


class _Timeout(Exception):
    pass


def _alarm(signum, frame):
    raise _Timeout()


def surface():
    out = []
    for name in sorted(dir(xgi)):
        if name.startswith("_") or name in EXCLUDE:
            continue
        f = getattr(xgi, name)
        if not inspect.isfunction(f):
            continue
        try:
            ps = list(inspect.signature(f).parameters.values())
        except (TypeError, ValueError):
            continue
        if ps and ps[0].name in NET_PARAMS:
            out.append(name)
    return out


def recipe(name, H, cls, tmpdir):
    """(args, kwargs) candidates for the parameters after the network"""
    nodes = list(H.nodes)
    n0 = nodes[0] if nodes else 0
    n1 = nodes[-1] if nodes else 1
    R = {
        "adjacency_tensor": [((1,), {})],
        "is_possible_order": [((1,), {})],
        "cut_to_order": [((1,), {}), ((0,), {})],
        "k_skeleton": [((1,), {})],
        "edge_neighborhood": [((n0,), {}), ((n0,), {"include_self": True})],
        "node_connected_component": [((n0,), {})],
        "single_source_shortest_path_length": [((n0,), {})],
        "node_swap": [((n0, n1), {}), ((n0, n1), {"order": 1}), ((n0, n1), {"order": 2}), ((n1, n0), {"order": 0})],
        "shuffle_hyperedges": [((1, 0.7), {"seed": 1})],
        "multiorder_laplacian": [(([1, 2], [1, 1]), {})],
        "simulate_kuramoto": [((1, 1), {"n_steps": 5})],
        "simulate_simplicial_kuramoto": [((), {"n_steps": 5})],
        "convert_labels_to_integers": [((), {}), ((), {"in_place": False})],
        "largest_connected_hypergraph": [((), {}), ((), {"in_place": False})],
        "subhypergraph": [((), {}), ((), {"nodes": nodes[:2]}), ((), {"nodes": nodes[:3], "keep_isolates": False})],
        "to_line_graph": [((), {}), ((), {"s": 2, "weights": "absolute"})],
        "laplacian": [((), {}), ((), {"order": 2})],
        "adjacency_matrix": [((), {}), ((), {"order": 1, "s": 2, "weighted": True})],
        "incidence_matrix": [((), {}), ((), {"order": 1, "sparse": False, "index": True})],
        "density": [((), {}), ((), {"order": 1})],
        "to_encapsulation_dag": [((), {}), ((), {"subset_types": "immediate"})],
        "draw": [((), {}), ((), {"node_labels": True, "hyperedge_labels": True})],
        "spectral_clustering": [((), {"k": 2, "seed": 1})],
        "random_layout": [((), {"seed": 1})],
    }
    if name in ("draw_node_labels", "draw_hyperedge_labels"):
        pos = xgi.circular_layout(H)
        if name == "draw_hyperedge_labels":
            return [((pos,), {})]
        return [((pos,), {})]
    if name == "edge_positions_from_barycenters":
        return [((xgi.circular_layout(H),), {})]
    if name == "empirical_subsets_filter":
        return [((xgi.to_encapsulation_dag(H),), {})]
    if name.startswith("write_"):
        p = os.path.join(tmpdir, f"{name}.out")
        if name == "write_hif_collection":
            return [((p,), {})]
        return [((p,), {})]
    return R.get(name, [((), {})])


def poke(result):
    """mutate structural containers handed out by the call (exposes aliased internal sets)"""
    try:
        if isinstance(result, set):
            result.add("__poke__")
        elif isinstance(result, list):
            for x in result:
                if isinstance(x, set):
                    x.add("__poke__")
            result.append("__poke__")
        elif isinstance(result, dict):
            for x in result.values():
                # lists inside dicts are left alone: attribute records are handed out live on
                # purpose (H.nodes[n] is the documented way to edit attributes)
                if isinstance(x, set):
                    x.add("__poke__")
                elif isinstance(x, tuple):
                    for y in x:
                        if isinstance(y, set):
                            y.add("__poke__")
        elif isinstance(result, tuple):
            for x in result:
                poke(x)
    except Exception:  # noqa: BLE001
        pass


def method_surface(H, cls):
    """view / stat accessors and operators: (label, thunk) pairs"""
    out = []
    nodes, edges = list(H.nodes), list(H.edges)
    n0 = nodes[0] if nodes else None
    e0 = edges[0] if edges else None
    for vname, view, x0 in (("nodes", H.nodes, n0), ("edges", H.edges, e0)):
        for m in sorted(dir(view)):
            if m.startswith("_"):
                continue
            attr = getattr(type(view), m, None)
            if isinstance(attr, property):
                out.append((f"{vname}.{m}", lambda view=view, m=m: getattr(view, m)))
                continue
            f = getattr(view, m, None)
            if not callable(f):
                continue
            from xgi.stats import IDStat

            if isinstance(f, IDStat):
                for fmt in ("asdict", "aslist", "asnumpy", "aspandas"):
                    out.append((f"{vname}.{m}.{fmt}", lambda f=f, fmt=fmt: getattr(f, fmt)()))
                continue
            out.append((f"{vname}.{m}()", lambda f=f: f()))
            if x0 is not None:
                out.append((f"{vname}.{m}(id)", lambda f=f, x0=x0: f(x0)))
    out.append(("copy", lambda: H.copy()))
    if cls != "DH":
        out.append(("dual", lambda: H.dual()))
    if cls == "H":
        out.append(("lshift", lambda: H << H.copy()))

        def lshift_other():
            K = xgi.Hypergraph()
            for n in nodes[:2]:
                K.add_node(n, color=99, extra=[1])
            K.add_edge(nodes[:2] + ["__other__"], tag=1)
            return H << K
        out.append(("lshift(other network sharing nodes)", lshift_other))
        out.append(("cleanup(in_place=False)", lambda: H.cleanup(in_place=False)))
        out.append(("cleanup(in_place=False,multiedges=True,connected=False)",
                    lambda: H.cleanup(in_place=False, multiedges=True, connected=False)))
    if cls == "SC":
        out.append(("cleanup(in_place=False)", lambda: H.cleanup(in_place=False)))
        out.append(("has_simplex", lambda: H.has_simplex(list(H._edge[e0]) if e0 is not None else [0])))
    if cls == "DH":
        out.append(("cleanup(in_place=False)", lambda: H.cleanup(in_place=False)))
    # the class constructors take a network (of any class they accept) plus keyword attributes of the new network
    for cname, K in (("Hypergraph", xgi.Hypergraph), ("SimplicialComplex", xgi.SimplicialComplex), ("DiHypergraph", xgi.DiHypergraph)):
        out.append((f"{cname}(network, name=..., wt=...)", lambda K=K: K(H, name="derived", wt=[1, 2])))
        out.append((f"{cname}(network)", lambda K=K: K(H)))
    out.append(("iter", lambda: list(H)))
    out.append(("str", lambda: str(H)))
    out.append(("pickle", lambda: __import__("pickle").dumps(H)))
    return out


def networks(cls, g, shapes, rng, frozen):
    """realised input networks for one class"""
    outs = []
    for j in shapes:
        if cls == "H":
            H = obscore.realise(j, g, rng, shuffle=True)
            H.set_node_attributes(1, name="color")
            for e in list(H.edges)[:1]:
                H.edges[e]["wt"] = [5]
            # values that some converters might be tempted to "normalise" in place
            for e in list(H.edges)[1:2]:
                H.edges[e]["mult"] = {1, 2}
            for n in list(H.nodes)[:1]:
                H.nodes[n]["mult"] = frozenset({3})
        elif cls == "SC":
            H = xgi.SimplicialComplex()
            H.add_nodes_from([g.node(n) for n in j["nodes"]])
            H.add_simplices_from([[g.node(n) for n in m] for m in j["e2n"] if m])
        else:
            H = xgi.DiHypergraph()
            H.add_nodes_from([g.node(n) for n in j["nodes"]])
            for m in j["e2n"]:
                mm = [g.node(n) for n in m]
                H.add_edge((mm[: (len(mm) + 1) // 2], mm[(len(mm) + 1) // 2:] or mm[:1]))
        if rng.random() < 0.6:  # also networks without any network attribute
            H["wt"] = [7]
            H["name"] = "input network"
        if rng.random() < 0.5:  # a removal history: the id counter is ahead of the ids in use
            try:
                if cls == "SC":
                    H.add_simplex([g.node(5), g.node(6)])
                    H.remove_simplex_id(list(H.edges)[-1])
                elif cls == "DH":
                    H.add_edge(([g.node(5)], [g.node(6)]))
                    H.remove_edge(list(H.edges)[-1])
                else:
                    H.add_edge([g.node(5), g.node(6)])
                    H.remove_edge(list(H.edges)[-1])
            except Exception:  # noqa: BLE001
                pass
        if frozen:
            H.freeze()
        outs.append(H)
    return outs


def _worker(args):
    import matplotlib

    matplotlib.use("Agg")
    import matplotlib.pyplot as plt

    cls, fam, shapes, seed_, frozen, base = args
    signal.signal(signal.SIGALRM, _alarm)
    g = Gamma(*fam)
    rng = random.Random(seed_)
    proj = nets.CLASSES[cls][1]
    recs, stats = [], {"called": {}, "raised": {}, "timeouts": []}
    tmpdir = tempfile.mkdtemp(prefix="c08-", dir=common.scratch())
    names = surface()
    for hi, H in enumerate(networks(cls, g, shapes, rng, frozen)):
        first = set()
        calls = []
        for name in names:
            f = getattr(xgi, name)
            p0 = list(inspect.signature(f).parameters)[0]
            if p0 in ("S", "SC") and cls != "SC":
                continue
            try:
                cands = recipe(name, H, cls, tmpdir)
            except Exception:  # noqa: BLE001
                cands = [((), {})]
            # every boolean option flipped on its own (in_place excepted: that is the documented mutating mode)
            try:
                for pn, pp in inspect.signature(f).parameters.items():
                    if isinstance(pp.default, bool) and pn != "in_place":
                        base_a, base_kw = cands[0]
                        if pn not in base_kw:
                            cands = cands + [(base_a, dict(base_kw, **{pn: not pp.default}))]
                    # order restrictions: a bound below the largest edge (code that drops what it does not show)
                    if pn in ("max_order", "order") and pp.default is None or (pn == "max_order" and isinstance(pp.default, int)):
                        base_a, base_kw = cands[0]
                        if pn not in base_kw and pp.kind in (pp.POSITIONAL_OR_KEYWORD, pp.KEYWORD_ONLY):
                            cands = cands + [(base_a, dict(base_kw, **{pn: 1}))]
            except (TypeError, ValueError):
                pass
            for ci, (a, kw) in enumerate(cands):
                arg0 = {"k": H} if name == "write_hif_collection" else H
                calls.append((f"xgi.{name}#{ci}", lambda f=f, a=a, kw=kw, arg0=arg0: f(arg0, *a, **kw)))
        calls += method_surface(H, cls)
        for label, thunk in calls:
            pre, preanom = proj(H, g)
            uid0 = pre["uid"]
            res = "ok"
            signal.alarm(20)
            try:
                with warnings.catch_warnings():
                    warnings.simplefilter("ignore")
                    out = thunk()
                    poke(out)
            except _Timeout:
                res = "timeout"
                stats["timeouts"].append(label)
            except Exception as ex:  # noqa: BLE001
                res = hg.classify(ex)
            finally:
                signal.alarm(0)
            plt.close("all")
            post, postanom = proj(H, g)
            key = label.split("#")[0]
            stats["called"][key] = stats["called"].get(key, 0) + 1
            if res != "ok":
                stats["raised"][key] = stats["raised"].get(key, 0) + 1
            recs.append({"rid": f"{cls}{base + hi}.{label}", "what": f"{label} on {cls} ({g.name}{', frozen' if frozen else ''}) -> {res}",
                         "kind": "query", "a": 1, "b": 0, "name": label, "pre": [pre], "post": [post],
                         "anom": sorted(set(preanom + postanom))})
    return recs, stats


BUD = {"quick": {"shapes": {"NN": 4, "ME": 3, "MinSize": 0}, "per_class": 6},
       "thorough": {"shapes": {"NN": 4, "ME": 4, "MinSize": 0}, "per_class": 120}}


def run(tier, seed_):
    t = common.Timer()
    b = BUD[tier]
    shapes, mc = obscore.enumerate_shapes("MC_ShapesH", b["shapes"])
    rng = random.Random(seed_)
    # stratified: empty, isolated nodes + empty edge + duplicates, connected with nested edges, larger ones
    interesting = [j for j in shapes if len(j["nodes"]) >= 3 and len(j["edges"]) >= 2]
    # strata that read-only code is most likely to "tidy up": empty edges, isolated nodes, repeated edges
    def stratum(j):
        return (any(not m for m in j["e2n"]), any(not es for es in j["n2e"]),
                len({tuple(m) for m in j["e2n"]}) < len(j["e2n"]))
    special = [j for j in interesting if all(stratum(j))] or interesting
    jobs = []
    base = 0
    for cls in ("H", "SC", "DH"):
        for k in range(b["per_class"]):
            pick = [rng.choice(special if k % 2 == 0 else interesting)] + ([rng.choice(shapes)] if k % 2 else [])
            jobs.append((cls, nets.FAMS[k % len(nets.FAMS)], pick, seed_ + k, k % 3 == 2, base))
            base += 10
    recs, called, raised, timeouts = [], {}, {}, []
    with ProcessPoolExecutor(max_workers=common.NCPU) as ex:
        for r, st in ex.map(_worker, jobs):
            recs += r
            for k, v in st["called"].items():
                called[k] = called.get(k, 0) + v
            for k, v in st["raised"].items():
                raised[k] = raised.get(k, 0) + v
            timeouts += st["timeouts"]
    log(f"[C08] {len(recs)} read-only calls of {len(called)} distinct callables on {len(jobs)} network sets ({t():.0f}s)")
    never_ok = sorted(k for k in called if raised.get(k, 0) == called[k])

    def selftest(records, bad):
        m = json.loads(json.dumps(next(r for r in records if r["rid"] not in bad and r["post"][0]["edges"])))
        m["rid"] = "selftest"
        m["post"][0]["uid"] += 1  # the call consumed an automatic id
        v = common.validate_records([m], "TraceNets")
        if "C08:Unchanged" not in v.get("selftest", []):
            raise common.MachineryError(f"C08 self-test did not fire: {v}")
        return {"corrupted_records": 1, "rejected": 1}

    samples = [{"rid": r["rid"], "what": r["what"]} for r in recs[:: max(1, len(recs) // 8)]][:8]
    return obscore.report(
        "C08", tier, seed_, t, records=recs, trace_module="TraceNets", mc_stats=mc,
        rule="programs = public callables found by introspection (xgi functions whose first parameter receives a "
             "network, every public method / property / stat of the node and edge views in four output formats, "
             "copy, dual, <<, in_place=False variants, pickling), each called on realised TLC-enumerated states of "
             "the three classes (frozen and not) with recipe or default arguments; returned id containers are "
             "mutated afterwards; distinct = distinct callables",
        samples=samples, selftest=selftest, class_of=lambda r: r["name"].split("#")[0],
        extra={"callables": len(called), "callables_that_always_raised": never_ok,
               "timeouts": sorted(set(timeouts)), "uncovered_note": "a callable that always raised was still checked "
               "for leaving its input unchanged, but only on its error path"},
        assumptions=["iteration order inside a raw member set is not observable through the projection (sets are "
                     "reported sorted)", "arguments: recipe table + signature defaults; argument combinations beyond "
                     "them are not explored"])
