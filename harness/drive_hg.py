"""Random history driver for xgi.Hypergraph (C->S): generates abstract ops with the full
argument zoo, executes them on the real object and logs one record per call."""
import pickle
import random
import warnings

import xgi

from . import hg
from .gamma import Gamma, family
from .hg import item, mkop

A_CHOICES = [
    [], [], [[1, [0, 1]]], [[1, [0, 2]], [2, [1, 5]]], [[2, [0, 7]]], [[1, [2]]], [[1, [0, 0]]],
    [[2, [1, 3, 4]]],
]


def rand_attr(rng):
    return [list(p) for p in rng.choice(A_CHOICES)]


# attribute dicts given per item (bulk formats with an attribute dict, the dict-of-dicts setter) may use
# any hashable name, also one that is a parameter name of the adding methods or not a string
A_ITEM_CHOICES = A_CHOICES + [[[5, [0, 1]]], [[6, [0, 2]], [1, [0, 3]]], [[7, [2]]], [[10, [0, 4]]], [[5, [0, 6]], [10, [1, 2]]]]


def rand_item_attr(rng):
    return [list(p) for p in rng.choice(A_ITEM_CHOICES)]


def rand_members(rng, nn, allow_none=True):
    k = rng.choice([0, 1, 1, 2, 2, 2, 3, 3, 4])
    m = [rng.randrange(nn) for _ in range(k)]
    r = rng.random()
    if allow_none and r < 0.04:
        m.insert(rng.randrange(len(m) + 1), -1)
    elif r < 0.7:
        m = list(dict.fromkeys(m))
    return m


def rand_id(rng, j, fresh_bias=0.5):
    """explicit edge id: existing, fresh int-like, 0, string-like"""
    r = rng.random()
    if r < 0.25 and j["edges"]:
        return rng.choice(j["edges"])
    if r < 0.45:
        return rng.choice([0, 1, 2, 3])
    if r < 0.75:
        return rng.randrange(0, 12)
    return rng.choice([100, 101, 102, 103])


def some(rng, seq, default):
    return rng.choice(seq) if seq else default


def rand_op(rng, j, nn=6, weights=None, force=None):
    """one abstract op given the current projected state j"""
    nodes, edges = j["nodes"], j["edges"]
    names = [
        ("add_node", 4), ("add_nodes_from", 3), ("remove_node", 5), ("remove_nodes_from", 2),
        ("set_node_attributes", 2), ("set_edge_attributes", 2), ("add_edge", 12),
        ("add_edges_from", 10), ("add_weighted_edges_from", 1), ("remove_edge", 4),
        ("remove_edges_from", 2), ("add_node_to_edge", 4), ("remove_node_from_edge", 4),
        ("double_edge_swap", 3), ("random_edge_shuffle", 2), ("clear", 0.3), ("clear_edges", 0.4),
        ("update", 1), ("merge_duplicate_edges", 3), ("cleanup", 1.5),
        ("convert_labels_to_integers", 0.7), ("largest_connected_hypergraph", 1),
        ("set_net_attr", 0.5),
    ]
    if weights:
        names = [(n, weights.get(n, w)) for n, w in names]
    name = force or rng.choices([n for n, _ in names], [w for _, w in names])[0]
    anynode = lambda: rng.randrange(nn) if rng.random() < 0.35 or not nodes else rng.choice(nodes)  # noqa: E731
    anyedge = lambda: rand_id(rng, j) if rng.random() < 0.25 or not edges else rng.choice(edges)  # noqa: E731
    if name == "add_node":
        return mkop(name, n=-1 if rng.random() < 0.03 else rng.randrange(nn), a=rand_attr(rng))
    if name == "add_nodes_from":
        fmt = rng.choice([1, 2])
        its = [item(id=-1 if rng.random() < 0.03 else rng.randrange(nn), a=rand_item_attr(rng) if fmt == 2 else [])
               for _ in range(rng.randrange(0, 4))]
        # attribute entries that are not dicts: key/value pairs (b2), something that is no collection at all (b4)
        odd_ = fmt == 2 and its and rng.random() < 0.15
        return mkop(name, fmt=fmt, items=its, a=rand_attr(rng), b2=bool(odd_) and rng.random() < 0.5,
                    b4=bool(odd_) and rng.random() < 0.5)
    if name == "remove_node":
        return mkop(name, n=anynode(), b1=rng.random() < 0.4, b2=rng.random() < 0.6)
    if name == "remove_nodes_from":
        return mkop(name, ns=[anynode() for _ in range(rng.randrange(0, 4))], b1=rng.random() < 0.4,
                    b2=rng.random() < 0.6)
    if name in ("set_node_attributes", "set_edge_attributes"):
        pick = anynode if name == "set_node_attributes" else anyedge
        fmt = rng.choice([1, 2, 3, 3, 4]) if rng.random() < 0.9 else 4
        k = rng.choice([1, 2])
        if fmt == 1:
            return mkop(name, fmt=1, k=k, v=rng.choice([[0, 7], [1, 1, 2], [2]]))
        ids = list(dict.fromkeys(pick() for _ in range(rng.randrange(0, 4))))
        if fmt == 2:
            return mkop(name, fmt=2, k=k, kv=[[i, rng.choice([[0, 4], [2], [1, 9]])] for i in ids])
        if fmt == 3:
            return mkop(name, fmt=3, kd=[[i, rand_item_attr(rng)] for i in ids])
        return mkop(name, fmt=4)
    if name == "add_edge":
        return mkop(name, m=rand_members(rng, nn), id=-1 if rng.random() < 0.55 else rand_id(rng, j),
                    a=rand_attr(rng))
    if name == "add_edges_from":
        fmt = rng.choice([1, 1, 2, 3, 4, 4, 5])
        n = rng.choice([0, 1, 2, 2, 3, 4])
        its = []
        for _ in range(n):
            its.append(item(m=rand_members(rng, nn, allow_none=rng.random() < 0.3),
                            id=rand_id(rng, j) if fmt in (2, 4, 5) else -1,
                            a=rand_item_attr(rng) if fmt in (3, 4) else []))
        if fmt == 5:  # dict keys are unique
            seen, u = set(), []
            for it in its:
                if it["id"] not in seen:
                    seen.add(it["id"])
                    u.append(it)
            its = u
        odd = fmt in (3, 4) and its and rng.random() < 0.08
        return mkop(name, fmt=fmt, items=its, a=rand_attr(rng), b2=bool(odd))
    if name == "add_weighted_edges_from":
        its = [item(m=rand_members(rng, nn, allow_none=False), w=[0, rng.randrange(1, 5)])
               for _ in range(rng.randrange(0, 3))]
        return mkop(name, items=its, k=2, a=rand_attr(rng))
    if name == "remove_edge":
        return mkop(name, e=anyedge())
    if name == "remove_edges_from":
        return mkop(name, ns=list(dict.fromkeys(anyedge() for _ in range(rng.randrange(0, 4)))))
    if name == "add_node_to_edge":
        return mkop(name, e=-1 if rng.random() < 0.03 else anyedge(), n=-1 if rng.random() < 0.03 else anynode())
    if name == "remove_node_from_edge":
        e = anyedge()
        n = anynode()
        if e in edges and rng.random() < 0.7:
            mem = j["e2n"][edges.index(e)]
            if mem:
                n = rng.choice(mem)
        return mkop(name, e=e, n=n, b1=rng.random() < 0.6)
    if name == "double_edge_swap":
        e1, e2 = anyedge(), anyedge()
        n1, n2 = anynode(), anynode()
        if e1 in edges and e2 in edges and rng.random() < 0.8:
            m1 = j["e2n"][edges.index(e1)]
            m2 = j["e2n"][edges.index(e2)]
            if m1 and m2:
                n1, n2 = rng.choice(m1), rng.choice(m2)
        return mkop(name, n=n1, n2=n2, e=e1, e2=e2)
    if name == "random_edge_shuffle":
        if rng.random() < 0.3:
            return mkop(name)
        return mkop(name, e=anyedge(), e2=anyedge())
    if name == "clear":
        return mkop(name, b1=rng.random() < 0.5)
    if name == "clear_edges":
        return mkop(name)
    if name == "update":
        fmt = rng.choice([1, 2, 4])
        its = [item(m=rand_members(rng, nn, allow_none=False), id=rand_id(rng, j) if fmt != 1 else -1,
                    a=rand_item_attr(rng) if fmt == 4 else []) for _ in range(rng.randrange(0, 3))]
        return mkop(name, ns=[rng.randrange(nn) for _ in range(rng.randrange(0, 3))], fmt=fmt, items=its)
    if name == "merge_duplicate_edges":
        rename = rng.choice(["first", "first", "tuple", "new", "new", "bogus"])
        rule = rng.choice(["first", "first", "union", "intersection", "bogus"])
        # union / intersection build python sets of the attribute values: unhashable (list)
        # values are outside the documented domain
        if rule in ("union", "intersection") and any(v[0] == 1 for a in j["eattr"] for _, v in a):
            rule = "first"
        return mkop(name, s1=rename, s2=rule, k=rng.choice([0, 0, 3]))
    if name == "cleanup":
        return mkop(name, b1=rng.random() < 0.5, b2=rng.random() < 0.5, b3=rng.random() < 0.5,
                    b4=rng.random() < 0.5, b5=rng.random() < 0.5)
    if name == "set_net_attr":
        return mkop(name, k=rng.choice([1, 2]), v=rng.choice([[0, 1], [1, 2, 3], [2]]))
    return mkop(name)


def run_history(hid, rng, length, *, gamma=None, nn=6, cls=xgi.Hypergraph, call=hg.call,
                proj=hg.proj, gen=rand_op, start_ops=(), obs=None):
    """Execute one random history; returns the list of trace records."""
    g = gamma or family(rng.randrange(6))
    H = cls()
    recs = []
    pre, preanom = proj(H, g)
    seq = 0
    ops = list(start_ops)
    while seq < length:
        op = ops[seq] if seq < len(ops) else gen(rng, pre, nn)
        gname = g.name
        if seq >= len(ops) and seq > 2 and rng.random() < 0.06 and not pre.get("frozen"):
            # "fork": the history goes on with a copy (copy(), own-class constructor or pickle round trip) while
            # the original is edited a few more times behind its back.  Nothing of that may reach the copy,
            # which must be the network that was copied, with a counter that is still fresh.
            how = rng.choice(["copy", "copy", "constructor", "pickle"])
            op = hg.mkop("fork", s1=how)
            if "h" in (ops[0] if ops else gen(rng, pre, nn)):
                op["h"] = []
            old = H
            try:
                with warnings.catch_warnings():
                    warnings.simplefilter("ignore")
                    H = old.copy() if how == "copy" else (cls(old) if how == "constructor" else pickle.loads(pickle.dumps(old)))
                res, nwarn = "ok", 0
                for _ in range(3):
                    call(old, gen(rng, pre, nn), g, rng)
            except Exception as ex:  # noqa: BLE001
                H, res, nwarn = old, hg.classify(ex), 0
        else:
            res, nwarn, g2 = call(H, op, g, rng)
            if res == "ok":
                g = g2
        post, postanom = proj(H, g)
        rec = {
            "rid": f"{hid}.{seq}", "gamma": gname, "pre": pre, "preanom": preanom, "op": op,
            "res": res, "warn": nwarn, "post": post, "postanom": postanom,
        }
        if obs:
            rec.update(obs(H, g, post, rng) if not postanom else obs(None, g, {"nodes": [], "e2n": []}, rng))
        recs.append(rec)
        seq += 1
        if postanom:
            break  # the object can no longer be projected faithfully
        # the abstract id universe holds the int ids 0..99: a history ends before its counter can leave it
        # (a bulk call on six nodes creates at most 57 simplices, 4 edges otherwise)
        if post.get("uid", 0) > (40 if cls is xgi.SimplicialComplex else 90):
            break
        pre, preanom = post, postanom
    return recs
