"""C18: frozen networks cannot be structurally modified.

Part 1 (checks.core_check): freeze is part of the alphabet of the exhaustive models and of the
random histories; TLC decides FrozenImmutable / NotRejected / is_frozen on every step.
Part 2 (here): the method surface is discovered by introspection and probed on an unfrozen
twin; whatever changes the twin must be rejected on the frozen network."""
import contextlib
import inspect
import io
import itertools
import json
import random
import warnings

import xgi

from . import checks, common, core, dhg, hg, kits, nets, obscore, sc
from .common import log
from .gamma import Gamma


def struct(j):
    return {k: j[k] for k in j if k in ("nodes", "edges", "e2n", "n2e", "tail", "head", "nout", "nin")}


def candidates(cls, g, j):
    """generic argument tuples tried on every public method (signature mismatches are skipped)"""
    N, E = g.node, g.edge
    n0 = N(j["nodes"][0]) if j["nodes"] else N(0)
    n1 = N(j["nodes"][-1]) if j["nodes"] else N(1)
    e0 = E(j["edges"][0]) if j["edges"] else E(0)
    e1 = E(j["edges"][-1]) if j["edges"] else E(1)
    new, new2 = N(7), N(8)
    pair = ([n0], [new]) if cls == "DH" else [n0, new]
    pair2 = ([new], [new2]) if cls == "DH" else [new, new2]
    c = [
        (), (n0,), (e0,), (new,), ([n0, new],), ([e0],), (pair,), ([pair, pair2],), ({E(9): pair},),
        (e0, n0), (e0, new), (E(9), new), (n0, n1, e0, e1), (e0, e1), (pair, E(9)),
        ([(new, {"color": 1})],), ([[n0, new, 2]],),
        # degenerate arguments: empty collections of every kind (an empty edge is an edge; an empty bunch is a no-op)
        ([],), ((),), (set(),), ({},), (frozenset(),), ("",), (([], []),), ([[]],), ([([], [])],),
    ]
    # every (n1, n2, e1, e2) over the first nodes / edges: some are valid degree preserving swaps
    ns = [N(x) for x in j["nodes"][:4]]
    es = [E(x) for x in j["edges"][:4]]
    if cls != "DH":
        c += [(a, b, x, y) for a in ns for b in ns for x in es for y in es if a != b and x != y][:60]
    c += [{"edges": [pair]}, {"nodes": [new]}]
    if cls == "DH":
        c += [(e0, new, "in"), (e0, new, "out"), (e0, n0, "in"), (e0, n0, "out"), (e0, n1, "in"), (e0, n1, "out")]
    return c


def _members(net, e):
    m = net._edge[e]
    return (frozenset(m["in"]), frozenset(m["out"])) if isinstance(m, dict) else frozenset(m)


def _call(obj, name, args):
    if isinstance(args, dict):
        return getattr(obj, name)(**args)
    return getattr(obj, name)(*args)


SKIP = {"freeze", "copy", "dual"}  # freeze is the subject; copy / dual return new networks (C08)


def public_methods(klass):
    out = []
    for name, m in inspect.getmembers(klass, callable):
        if name.startswith("_") or name in SKIP:
            continue
        out.append(name)
    return out


def copy_probe(tag, cls, g, make):
    """copy of a frozen network: equal, unfrozen, editable"""
    klass, proj = nets.CLASSES[cls]
    recs = []
    fz = make()
    fz.freeze()
    pre, _ = proj(fz, g)
    cp = fz.copy()
    post, _ = proj(cp, g)
    try:
        cp.add_node(g.node(9))
        editable = g.node(9) in cp
        # editable with the documented effect: automatic additions add, and leave what was there alone
        before = {e: _members(cp, e) for e in cp.edges}
        extra = ([g.node(9)], [g.node(8)]) if cls == "DH" else [g.node(9), g.node(8)]
        for _ in range(len(before) + 2):
            if cls == "SC":
                cp.add_simplex([g.node(9), g.node(8)] if _ == 0 else [g.node(9), g.node(10 + _)])
            else:
                cp.add_edge(extra)
        after = {e: _members(cp, e) for e in cp.edges}
        editable = editable and all(after.get(e) == m for e, m in before.items()) and len(after) >= len(before) + len(before) + 2
    except Exception:  # noqa: BLE001
        editable = False
    recs.append({"rid": f"{tag}.{cls}.copy", "what": f"{cls}.copy() of a frozen network", "kind": "copy", "name": "copy",
                 "twinChanged": bool(editable), "res": "ok", "pre": pre, "post": post})
    return recs


def probe_network(tag, cls, g, make):
    """make(): returns a fresh unfrozen network (deterministic).  Yields probe records."""
    klass, proj = nets.CLASSES[cls]
    recs = []
    base = make()
    j0, _ = proj(base, g)
    uncovered = []
    for name in public_methods(klass):
        ran = False
        for ci, args in enumerate(candidates(cls, g, j0)):
            twin = make()
            with warnings.catch_warnings():
                warnings.simplefilter("ignore")
                try:
                    random.seed(1)
                    _call(twin, name, args)
                    raised = None
                except TypeError as ex:
                    # a signature mismatch says nothing; a TypeError from inside the method with a
                    # changed twin still counts below
                    raised = ex
                except Exception as ex:  # noqa: BLE001
                    raised = ex
            jt, _ = proj(twin, g)
            changed = struct(jt) != struct(j0)
            if isinstance(raised, TypeError) and not changed:
                continue
            ran = True
            if raised is not None and not changed:
                continue  # the call is invalid for this network: nothing to learn
            fz = make()
            fz.freeze()
            pre, _ = proj(fz, g)
            with warnings.catch_warnings():
                warnings.simplefilter("ignore")
                try:
                    random.seed(1)
                    _call(fz, name, args)
                    res = "ok"
                except Exception as ex:  # noqa: BLE001
                    res = hg.classify(ex)
            post, anom = proj(fz, g)
            recs.append({"rid": f"{tag}.{cls}.{name}.{ci}", "what": f"{cls}.{name}{args!r}"[:160], "kind": "probe",
                         "name": name, "twinChanged": bool(changed), "res": res, "pre": pre, "post": post})
        if not ran:
            uncovered.append(f"{cls}.{name}")
    # in-place library functions
    for fname, f in (("convert_labels_to_integers", lambda H: xgi.convert_labels_to_integers(H, in_place=True)),
                     ("largest_connected_hypergraph", lambda H: xgi.largest_connected_hypergraph(H, in_place=True))):
        if cls == "DH" and fname == "largest_connected_hypergraph":
            continue
        twin = make()
        try:
            f(twin)
        except Exception:  # noqa: BLE001
            pass
        jt, _ = proj(twin, g)
        fz = make()
        fz.freeze()
        pre, _ = proj(fz, g)
        try:
            f(fz)
            res = "ok"
        except Exception as ex:  # noqa: BLE001
            res = hg.classify(ex)
        post, _ = proj(fz, g)
        recs.append({"rid": f"{tag}.{cls}.{fname}", "what": f"xgi.{fname}({cls}, in_place=True)", "kind": "probe",
                     "name": fname, "twinChanged": struct(jt) != struct(j0), "res": res, "pre": pre, "post": post})
    recs += copy_probe(tag, cls, g, make)
    # editing the copy of a frozen network must not reach the frozen original (shared internal sets)
    fz = make()
    fz.freeze()
    pre, _ = proj(fz, g)
    cp = fz.copy()
    jn, je = j0["nodes"], j0["edges"]
    edits = []
    if cls == "DH":
        edits = [lambda: cp.add_node_to_edge(g.edge(je[0]), g.node(9), "in") if je else None,
                 lambda: cp.remove_edge(g.edge(je[-1])) if je else None, lambda: cp.remove_node(g.node(jn[0])) if jn else None]
    elif cls == "H":
        edits = [lambda: cp.add_node_to_edge(g.edge(je[0]), g.node(9)) if je else None,
                 lambda: cp.remove_node_from_edge(g.edge(je[0]), g.node(9)) if je else None,
                 lambda: cp.remove_edge(g.edge(je[-1])) if je else None, lambda: cp.remove_node(g.node(jn[0])) if jn else None,
                 lambda: cp.clear_edges()]
    else:
        edits = [lambda: cp.remove_simplex_id(g.edge(je[-1])) if je else None, lambda: cp.remove_node(g.node(jn[0])) if jn else None]
    for ei, ed in enumerate(edits):
        with warnings.catch_warnings():
            warnings.simplefilter("ignore")
            try:
                ed()
            except Exception:  # noqa: BLE001
                pass
        post, _ = proj(fz, g)
        recs.append({"rid": f"{tag}.{cls}.copyedit{ei}", "what": f"edit #{ei} on the copy of a frozen {cls}", "kind": "probe",
                     "name": "copy+edit", "twinChanged": False, "res": "liberr", "pre": pre, "post": post})
    # a frozen network that went through pickle / deepcopy: is_frozen must tell the truth
    import copy as _copy
    import pickle as _pickle

    for how, f in (("pickle", lambda x: _pickle.loads(_pickle.dumps(x))), ("deepcopy", _copy.deepcopy)):
        fz = make()
        fz.freeze()
        with warnings.catch_warnings():
            warnings.simplefilter("ignore")
            try:
                clone = f(fz)
            except Exception:  # noqa: BLE001
                continue
        if not clone.is_frozen:
            continue  # an unfrozen clone is a legitimate answer
        pre, _ = proj(clone, g)
        try:
            clone.add_node(g.node(9))
            res = "ok"
        except Exception as ex:  # noqa: BLE001
            res = hg.classify(ex)
        post, _ = proj(clone, g)
        recs.append({"rid": f"{tag}.{cls}.{how}.add_node", "what": f"add_node on a {how} clone reporting is_frozen", "kind": "probe",
                     "name": f"{how}+add_node", "twinChanged": True, "res": res, "pre": pre, "post": post})
    # subhypergraph results are frozen (whatever the selection) and must resist the same probes
    if cls in ("H", "SC"):
        sels = [dict(), dict(nodes=[]), dict(nodes=[g.node(77)]), dict(nodes=[], edges=[]), dict(edges=[]),
                dict(nodes=[g.node(x) for x in j0["nodes"][:1]])]
        for si, kw in enumerate(sels):
            sub = xgi.subhypergraph(make(), **kw)
            js, _ = proj(sub, g)
            try:
                sub.add_node(g.node(9))
                res = "ok"
            except Exception as ex:  # noqa: BLE001
                res = hg.classify(ex)
            jp, _ = proj(sub, g)
            recs.append({"rid": f"{tag}.{cls}.sub{si}", "what": f"subhypergraph({kw}) then add_node", "kind": "probe",
                         "name": "subhypergraph+add_node", "twinChanged": True, "res": res, "pre": js, "post": jp})
        for emptyk in (0,):
            sub = xgi.subhypergraph(nets.CLASSES[cls][0]())
            js, _ = proj(sub, g)
            try:
                sub.add_node(g.node(9))
                res = "ok"
            except Exception as ex:  # noqa: BLE001
                res = hg.classify(ex)
            jp, _ = proj(sub, g)
            recs.append({"rid": f"{tag}.{cls}.subempty", "what": "subhypergraph(empty network) then add_node", "kind": "probe",
                         "name": "subhypergraph+add_node", "twinChanged": True, "res": res, "pre": js, "post": jp})
    if cls == "H":
        sub = xgi.subhypergraph(make())
        js, _ = proj(sub, g)
        recs.append({"rid": f"{tag}.{cls}.sub", "what": "subhypergraph(H)", "kind": "sub", "name": "subhypergraph",
                     "twinChanged": False, "res": "ok", "pre": js, "post": js})
        for name in public_methods(klass):
            for ci, args in enumerate(candidates(cls, g, j0)):
                twin = make()
                with warnings.catch_warnings():
                    warnings.simplefilter("ignore")
                    try:
                        _call(twin, name, args)
                    except Exception:  # noqa: BLE001
                        continue
                jt, _ = proj(twin, g)
                if struct(jt) == struct(j0):
                    continue
                sub = xgi.subhypergraph(make())
                pre, _ = proj(sub, g)
                with warnings.catch_warnings():
                    warnings.simplefilter("ignore")
                    try:
                        _call(sub, name, args)
                        res = "ok"
                    except Exception as ex:  # noqa: BLE001
                        res = hg.classify(ex)
                post, _ = proj(sub, g)
                recs.append({"rid": f"{tag}.{cls}.sub.{name}.{ci}", "what": f"subhypergraph(H).{name}{args!r}"[:160],
                             "kind": "probe", "name": name, "twinChanged": True, "res": res, "pre": pre, "post": post})
    return recs, uncovered


def library_probes(tag, cls, g, make):
    """Library functions that receive a network: as the object to fill (create_using=) or as their
    first argument.  Discovered by introspection of the xgi namespace; a call that changes an
    unfrozen twin must be refused on the frozen network, and no call may change the frozen one."""
    import os
    import tempfile

    import numpy as np
    import pandas as pd

    klass, proj = nets.CLASSES[cls]
    j0, _ = proj(make(), g)
    N = g.node
    tmp = tempfile.mkdtemp(prefix="c18-", dir=common.scratch())
    el = os.path.join(tmp, "el.txt")
    open(el, "w").write("1 2\n2 3 4\n")
    im = os.path.join(tmp, "im.txt")
    open(im, "w").write("1 0\n1 1\n0 1\n")
    other = {"H": xgi.Hypergraph([[1, 2], [2, 3]]), "DH": xgi.DiHypergraph([([1], [2])]),
             "SC": xgi.SimplicialComplex([[1, 2]])}
    data = [(), ([[N(0), N(7)], [N(7), N(8)]],), ({3: [N(0), N(7)], 4: [N(8)]},), (3,), (["1 2", "2 3"],), (el,), (im,),
            (np.array([[1, 0], [1, 1]]),), (pd.DataFrame({"a": [1, 2, 2], "b": [0, 0, 1]}),), (other["H"],), (other["DH"],),
            (other["SC"],), ([([N(0)], [N(7)])],), ({3: ([N(0)], [N(7)])},)]
    recs = []

    def probe(rid, what, name, f):
        twin = make()
        with warnings.catch_warnings(), contextlib.redirect_stdout(io.StringIO()):
            warnings.simplefilter("ignore")
            try:
                random.seed(1)
                f(twin)
                raised = None
            except Exception as ex:  # noqa: BLE001
                raised = ex
        jt, _ = proj(twin, g)
        changed = struct(jt) != struct(j0)
        if raised is not None and not changed:
            return  # not a valid call for this network / these arguments
        fz = make()
        fz.freeze()
        pre, _ = proj(fz, g)
        with warnings.catch_warnings(), contextlib.redirect_stdout(io.StringIO()):
            warnings.simplefilter("ignore")
            try:
                random.seed(1)
                f(fz)
                res = "ok"
            except Exception as ex:  # noqa: BLE001
                res = hg.classify(ex)
        post, _ = proj(fz, g)
        recs.append({"rid": rid, "what": what[:160], "kind": "probe", "name": name, "twinChanged": bool(changed), "res": res,
                     "pre": pre, "post": post})

    for fname in sorted(n for n in dir(xgi) if not n.startswith("_")):
        f = getattr(xgi, fname)
        if not inspect.isfunction(f) or (f.__module__ or "").startswith(("xgi.drawing", "xgi.dynamics")):
            continue
        if fname.startswith(("download", "load_", "request_")):
            continue
        try:
            params = inspect.signature(f).parameters
        except (TypeError, ValueError):
            continue
        if "create_using" in params:
            for di, args in enumerate(data):
                probe(f"{tag}.{cls}.lib.{fname}.cu{di}", f"xgi.{fname}(<data #{di}>, create_using=<{cls}>)", f"xgi.{fname}(create_using=)",
                      lambda X, f=f, args=args: f(*args, create_using=X))
        ps = list(params.values())
        if ps and ps[0].name in ("H", "S", "SC", "net", "DH", "hypergraph", "data") and not fname.startswith(("write_", "draw")):
            # the argument recipes of the read-only survey (C08): functions that need more than the network
            from . import c08

            try:
                cands = c08.recipe(fname, make(), cls, tmp)
            except Exception:  # noqa: BLE001
                cands = [((), {})]
            for ci, (a, kw) in enumerate(cands):
                if kw.get("in_place"):
                    continue
                probe(f"{tag}.{cls}.lib.{fname}.r{ci}", f"xgi.{fname}(<{cls}>, ...#{ci})", f"xgi.{fname}",
                      lambda X, f=f, a=a, kw=kw: f(X, *a, **kw))
        if ps and ps[0].name in ("H", "S", "SC", "net", "DH", "hypergraph", "data") and all(
                q.default is not inspect.Parameter.empty or q.kind in (q.VAR_KEYWORD, q.VAR_POSITIONAL) for q in ps[1:]):
            probe(f"{tag}.{cls}.lib.{fname}", f"xgi.{fname}(<{cls}>)", f"xgi.{fname}", lambda X, f=f: f(X))
            if "in_place" in params:
                probe(f"{tag}.{cls}.lib.{fname}.inplace", f"xgi.{fname}(<{cls}>, in_place=True)", f"xgi.{fname}(in_place=True)",
                      lambda X, f=f: f(X, in_place=True))
    # a network that was never frozen says so, whatever its attributes are called; the copy of a frozen one too
    for val in (True, 1, "yes"):
        P_ = make()
        P_["frozen"] = val
        pre, _ = proj(P_, g)
        try:
            P_.add_node(g.node(9))
            res = "ok"
        except Exception as ex:  # noqa: BLE001
            res = hg.classify(ex)
        post, _ = proj(P_, g)
        recs.append({"rid": f"{tag}.{cls}.attr_frozen.{val!r}", "what": f"{cls} with a network attribute 'frozen'={val!r}, never frozen",
                     "kind": "plain", "name": "attribute named frozen", "twinChanged": True, "res": res, "pre": pre, "post": post})
        F_ = make()
        F_["frozen"] = val
        F_.freeze()
        C_ = F_.copy()
        cj, _ = proj(C_, g)
        recs.append({"rid": f"{tag}.{cls}.attr_frozen.copy.{val!r}", "what": f"copy of a frozen {cls} with a network attribute 'frozen'",
                     "kind": "plain", "name": "attribute named frozen (copy)", "twinChanged": True, "res": "ok", "pre": cj, "post": cj})
    import shutil

    shutil.rmtree(tmp, ignore_errors=True)
    return recs


def make_factory(cls, g, variant):
    def make():
        H = nets.seed_network(cls, g)
        if variant >= 1:
            nets.edit(cls, H, "add_auto", g)
            nets.edit(cls, H, "add_explicit", g)
        if variant >= 2:
            nets.edit(cls, H, "add_auto", g)
            if cls == "H":
                H.add_edge([g.node(0), g.node(1)])  # a duplicate edge: merge_duplicate_edges has work to do
                H.add_edge([g.node(5)])
        return H
    return make


def run(tier, seed_):
    t = common.Timer()
    rc1 = checks.core_check("C18", tier, seed_)
    recs, uncovered = [], []
    for cls in ("H", "DH", "SC"):
        for variant in ((0, 1, 2) if tier == "thorough" else (2,)):
            for fi, fam in enumerate(nets.FAMS if tier == "thorough" else nets.FAMS[:1]):
                g = Gamma(*fam)
                r, u = probe_network(f"v{variant}f{fi}", cls, g, make_factory(cls, g, variant))
                recs += r
                uncovered += u
                recs += library_probes(f"v{variant}f{fi}", cls, g, make_factory(cls, g, variant))
        # the copy of a frozen network under edge ids that are integer-like without being python ints
        for fi, fam in enumerate([("shift", "intfloat"), ("npint", "npint")]):
            g = Gamma(*fam)
            recs += copy_probe(f"cpf{fi}", cls, g, make_factory(cls, g, 2))

            def last_explicit(g=g, cls=cls):
                # the largest id was given explicitly (not a python int under these families)
                H = make_factory(cls, g, 1)()
                m = [g.node(3), g.node(2)]
                if cls == "SC":
                    H.add_simplex(m, idx=g.edge(15))
                else:
                    H.add_edge((m[:1], m[1:]) if cls == "DH" else m, idx=g.edge(15))
                return H
            recs += copy_probe(f"cpx{fi}", cls, g, last_explicit)
    log(f"[C18] surface probing: {len(recs)} probe records ({t():.0f}s)")
    # freeze protects the structure (attribute setters stay allowed): probes compare structure + flag
    for r in recs:
        if r["kind"] in ("probe", "plain"):
            for k in ("pre", "post"):
                fr = r[k]["frozen"]
                r[k] = struct(r[k])
                r[k]["frozen"] = fr
    bad = common.validate_records(recs, "TraceFrozen")
    byrid = {r["rid"]: r for r in recs}
    seen = set()
    nv = 0
    for rid, cl in bad.items():
        key = (byrid[rid]["name"], tuple(cl), rid.split(".")[1])
        if key in seen:
            continue
        seen.add(key)
        nv += 1
        path = common.write_replay("C18", {"property": "C18", "clauses": cl, "record": byrid[rid],
                                           "trace_module": "TraceFrozen", "repo_head": common.repo_head()})
        print(f"VIOLATION property=C18 replay={path}")
        log(f"  {byrid[rid]['what']} twinChanged={byrid[rid]['twinChanged']} res={byrid[rid]['res']} {cl}")
    # self-test: a mutator that slips through must be reported
    st = json.loads(json.dumps(next((r for r in recs if r["kind"] == "probe" and r["twinChanged"] and r["res"] == "liberr"), None)))
    if st is None:
        if not nv:
            raise common.MachineryError("C18 surface self-test: no refused call to corrupt")
    else:
        st["rid"], st["res"] = "selftest", "ok"
    if st is not None and not nv and "C18:NotRejected" not in common.validate_records([st], "TraceFrozen").get("selftest", []):
        raise common.MachineryError("C18 surface self-test did not fire")
    ev = json.load(open(f"{common.EVID}/C18.json"))
    cov = ev["coverage"]
    probed = sorted({f"{r['rid'].split('.')[1]}.{r['name']}" for r in recs if r["kind"] == "probe"})
    changing = sorted({f"{r['rid'].split('.')[1]}.{r['name']}" for r in recs if r["kind"] == "probe" and r["twinChanged"]})
    cov["surface_probe"] = {"records": len(recs), "methods_probed": len(probed), "methods_that_change_a_twin": changing,
                            "uncovered_callables": sorted(set(uncovered) - set(probed)), "violations": nv,
                            "selftest": "a frozen call returning ok although the twin changed is rejected"}
    cov["evaluations"] += len(recs)
    cov["traces_validated_against_impl"] += len(recs)
    ev["violations"] += nv
    ev["wall_s"] = round(t(), 2)
    json.dump(ev, open(f"{common.EVID}/C18.json", "w"), indent=1)
    return 1 if (rc1 or nv) else 0
