"""C12: matrix representations encode the network exactly (spec/Matrices.tla)."""
import itertools
import json
import math
import random
import warnings
from concurrent.futures import ProcessPoolExecutor
from fractions import Fraction

import numpy as np
import xgi

from . import common, hg, nets, obscore
from .common import log
from .gamma import Gamma


def frac(x):
    """exact rational within 1e-9 of x with a small denominator, else a marker no rational equals"""
    f = Fraction(float(x)).limit_denominator(10000)
    if abs(float(f) - float(x)) > 1e-9 * max(1.0, abs(float(x))):
        return [1, 0]  # not a small rational (REq fails against everything finite)
    return [f.numerator, f.denominator]


def dense(M):
    return np.asarray(M.todense() if hasattr(M, "todense") else M)


def entry(kind, what, **kw):
    e = {"kind": kind, "what": what, "d": -1, "s": 1, "w": False, "resc": False, "rows": [], "cols": [], "m": [],
         "mr": [], "ds": [], "ws": [], "tuples": [], "val": [1, 1]}
    e.update(kw)
    return e


def observe(H, g):
    iN, iE = g.inv_node, g.inv_edge
    nodes = [iN(n) for n in H.nodes]
    out = []

    def guard(what, f):
        with warnings.catch_warnings():
            warnings.simplefilter("ignore")
            try:
                out.append(f())
            except Exception as ex:  # noqa: BLE001
                out.append(entry("raised", f"{what}.raised.{hg.classify(ex)}"))

    for sparse in (True, False):
        sp = f"sparse={sparse}"
        for d in (None, 0, 1, 2, 3):
            da = -1 if d is None else d

            def inc():
                I, rd, cd = xgi.incidence_matrix(H, order=d, sparse=sparse, index=True)
                M = dense(I)
                if M.shape == (0, 0):
                    return entry("incidence", f"incidence_matrix(order={d},{sp})", d=da)
                return entry("incidence", f"incidence_matrix(order={d},{sp})", d=da,
                             rows=[iN(rd[i]) for i in range(M.shape[0])], cols=[iE(cd[j]) for j in range(M.shape[1])],
                             m=M.astype(int).tolist())
            guard(f"incidence_matrix(order={d},{sp})", inc)

            def inc_noindex():
                M = dense(xgi.incidence_matrix(H, order=d, sparse=sparse))
                ev = list(H.edges) if d is None else list(H.edges.filterby("order", d))
                if M.shape == (0, 0):
                    return entry("incidence", f"incidence_matrix(order={d},{sp},index=False)", d=da)
                return entry("incidence", f"incidence_matrix(order={d},{sp},index=False)", d=da, rows=nodes,
                             cols=[iE(e) for e in ev], m=M.astype(int).tolist())
            guard(f"incidence_matrix(order={d},{sp},index=False)", inc_noindex)
            for s in (1, 2, 3):
                for w in (False, True):
                    def adj():
                        A, rd = xgi.adjacency_matrix(H, order=d, sparse=sparse, s=s, weighted=w, index=True)
                        M = dense(A)
                        rows = [iN(rd[i]) for i in range(M.shape[0])] if rd else nodes[: M.shape[0]]
                        return entry("adjacency", f"adjacency_matrix(order={d},s={s},weighted={w},{sp})", d=da, s=s, w=w,
                                     rows=rows, cols=rows, m=M.astype(int).tolist())
                    guard(f"adjacency_matrix(order={d},s={s},weighted={w},{sp})", adj)

            def ip():
                P, cd = xgi.intersection_profile(H, order=d, sparse=sparse, index=True)
                M = dense(P)
                if M.shape == (0, 0):
                    return entry("intersection", f"intersection_profile(order={d},{sp})", d=da)
                cols = [iE(cd[j]) for j in range(M.shape[0])]
                return entry("intersection", f"intersection_profile(order={d},{sp})", d=da, rows=cols, cols=cols,
                             m=M.astype(int).tolist())
            guard(f"intersection_profile(order={d},{sp})", ip)
        def cm():
            W, rd = xgi.clique_motif_matrix(H, sparse=sparse, index=True)
            M = dense(W)
            rows = [iN(rd[i]) for i in range(M.shape[0])] if rd else nodes[: M.shape[0]]
            return entry("clique_motif", f"clique_motif_matrix({sp})", rows=rows, cols=rows, m=M.astype(int).tolist())
        guard(f"clique_motif_matrix({sp})", cm)
        for d in (1, 2, 3):
            for resc in (False, True):
                def lap():
                    L, rd = xgi.laplacian(H, order=d, sparse=sparse, rescale_per_node=resc, index=True)
                    M = dense(L)
                    if M.shape == (0, 0):
                        return entry("laplacian", f"laplacian(order={d},rescale={resc},{sp})", d=d, resc=resc)
                    rows = [iN(rd[i]) for i in range(M.shape[0])] if rd else nodes[: M.shape[0]]
                    if resc:
                        return entry("laplacian", f"laplacian(order={d},rescale={resc},{sp})", d=d, resc=True, rows=rows,
                                     cols=rows, mr=[[frac(x) for x in row] for row in M.tolist()])
                    return entry("laplacian", f"laplacian(order={d},rescale={resc},{sp})", d=d, rows=rows, cols=rows,
                                 m=np.rint(M).astype(int).tolist() if np.allclose(M, np.rint(M)) else [[-777]])
                guard(f"laplacian(order={d},rescale={resc},{sp})", lap)
        for ds, ws in (([1, 2], [1, 1]), ([1, 2, 3], [2, 1, 3]), ([2], [1]), ([1, 2, 1], [1, 2, 3]), ([2, 2], [1, 3])):
            for resc in (False, True):
                def ml():
                    if not nodes:
                        return None
                    L, rd = xgi.multiorder_laplacian(H, ds, ws, sparse=sparse, rescale_per_node=resc, index=True)
                    M = dense(L)
                    rows = [iN(rd[i]) for i in range(M.shape[0])]
                    return entry("multiorder", f"multiorder_laplacian({ds},{ws},rescale={resc},{sp})", resc=resc, ds=ds,
                                 ws=ws, rows=rows, cols=rows, mr=[[frac(x) for x in row] for row in M.tolist()])
                if nodes:
                    guard(f"multiorder_laplacian({ds},{ws},rescale={resc},{sp})", ml)
        # normalised Laplacian: defined when every node is in an edge and no edge is empty
        if nodes and all(len(H._node[n]) for n in H.nodes) and all(len(m) for m in H._edge.values()):
            def nl():
                L, rd = xgi.normalized_hypergraph_laplacian(H, sparse=sparse, index=True)
                M = dense(L)
                rows = [iN(rd[i]) for i in range(M.shape[0])]
                deg = np.array([len(H._node[rd[i]]) for i in range(M.shape[0])], dtype=float)
                core = (np.eye(len(deg)) - M) * np.sqrt(np.outer(deg, deg))
                return entry("normcore", f"normalized_hypergraph_laplacian({sp})", rows=rows, cols=rows,
                             mr=[[frac(x) for x in row] for row in core.tolist()])
            guard(f"normalized_hypergraph_laplacian({sp})", nl)

            def nlw():
                L, rd = xgi.normalized_hypergraph_laplacian(H, weighted=True, sparse=sparse, index=True)
                M = dense(L)
                rows = [iN(rd[i]) for i in range(M.shape[0])]
                deg = np.array([len(H._node[rd[i]]) for i in range(M.shape[0])], dtype=float)
                core = (np.eye(len(deg)) - M) * np.sqrt(np.outer(deg, deg))
                return entry("normcorew", f"normalized_hypergraph_laplacian(weighted=True,{sp})", rows=rows, cols=rows,
                             mr=[[frac(x) for x in row] for row in core.tolist()])
            guard(f"normalized_hypergraph_laplacian(weighted=True,{sp})", nlw)
    for d in (None, 1, 2):
        da = -1 if d is None else d

        def dm():
            K, rd = xgi.degree_matrix(H, order=d, index=True)
            rows = [iN(rd[i]) for i in range(len(K))] if rd else nodes[: len(K)]
            return entry("degree", f"degree_matrix(order={d})", d=da, rows=rows, m=[np.asarray(K).astype(int).tolist()])
        guard(f"degree_matrix(order={d})", dm)
    for d in (1, 2, 3):
        for norm in (True, False):
            def at():
                B, rd = xgi.adjacency_tensor(H, d, normalized=norm, index=True)
                B = np.asarray(B)
                nz = np.argwhere(B != 0)
                vals = {float(B[tuple(ix)]) for ix in nz}
                lab = (lambda i: iN(rd[i])) if rd else (lambda i: nodes[i])
                return entry("tensor", f"adjacency_tensor(order={d},normalized={norm})", d=d, w=norm, m=[list(B.shape)],
                             tuples=[[lab(int(i)) for i in ix] for ix in nz],
                             val=frac(vals.pop()) if len(vals) == 1 else ([1, 1] if not vals else [1, 0]))
            if nodes:
                guard(f"adjacency_tensor(order={d},normalized={norm})", at)
    return out


def proj_w(H, g):
    """projection with the weights in half units (Matrices.EdgeWeight2)"""
    keep = {e: H.edges[e]["weight"] for e in H.edges if "weight" in H.edges[e]}
    for e, w in keep.items():
        H.edges[e]["weight"] = int(round(2 * w))
    try:
        return hg.proj(H, g)
    finally:
        for e, w in keep.items():
            H.edges[e]["weight"] = w


def _worker(args):
    states, base, seed_ = args
    out = []
    for k, j in enumerate(states):
        rng = random.Random(seed_ * 49979687 + base + k)
        fams = nets.FAMS + [("npint", "npint"), ("descset", "int"), ("collide", "int"), ("floatnode", "int")]
        g = Gamma(*fams[(base + k) % len(fams)])
        vname, emap = rng.choice(obscore.edge_id_variants(j, rng))
        H = obscore.realise(j, g, rng, shuffle=True, edge_id_map=emap)
        # non-negative edge weights (0 switches an edge off); some edges keep the default
        for e in list(H.edges):
            w = rng.choice([None, 0, 1, 2, 3, 0.5, 2.5])
            if w is not None:
                H.edges[e]["weight"] = w
        if (base + k) % 6 == 2 and all(j["e2n"]):
            # the same matrices of a SimplicialComplex object (a hypergraph as well: its simplices are its edges)
            S_ = xgi.SimplicialComplex()
            S_.add_nodes_from(list(H.nodes))
            with warnings.catch_warnings():
                warnings.simplefilter("ignore")
                for e_ in H.edges:
                    S_.add_simplex(list(H._edge[e_]))
            ids_ = {}

            class GS:
                name = g.name + "/as SimplicialComplex"
                prev = None
                inv_node = staticmethod(g.inv_node)
                inv_attrs = staticmethod(g.inv_attrs)

                @staticmethod
                def inv_edge(x):
                    return ids_.setdefault(x, len(ids_))
            H, g, vname = S_, GS(), "complex"
        st, anom = proj_w(H, g)
        obs = observe(H, g)
        # one record per group of entries keeps single TLC evaluations small
        for c in range(0, len(obs), 40):
            out.append({"rid": f"s{base + k}.{c}", "what": f"matrices of shape {base + k} ({g.name}/{vname})", "st": st,
                        "obs": obs[c:c + 40]})
        if k % 5 == 0 and not isinstance(H, xgi.SimplicialComplex) and obscore.rewire_in_place(H, rng):  # same object, edited, evaluated again
            st, anom = proj_w(H, g)
            obs = observe(H, g)
            for c in range(0, len(obs), 40):
                out.append({"rid": f"s{base + k}r.{c}", "what": f"matrices of shape {base + k} rewired in place ({g.name}/{vname})",
                            "st": st, "obs": obs[c:c + 40]})
    return out


BUD = {"quick": {"shapes": {"NN": 4, "ME": 3, "MinSize": 0}, "max_shapes": 200},
       "thorough": {"shapes": {"NN": 4, "ME": 4, "MinSize": 0}, "max_shapes": 5000}}


def run(tier, seed_):
    t = common.Timer()
    b = BUD[tier]
    shapes, mc = obscore.enumerate_shapes("MC_ShapesH", b["shapes"], invariants=("InvIntegrity",),
                                          max_states=b["max_shapes"])
    # the specification's own matrices: symmetric, zero row sums, sum-of-squares certificate (PSD)
    _, mc2 = obscore.enumerate_shapes("MC_MatrixLaws", {"NN": 3, "ME": 3} if tier == "quick" else {"NN": 4, "ME": 3},
                                      invariants=("InvLaplacianLaws",))
    jobs = common.NCPU
    recs = []
    with ProcessPoolExecutor(max_workers=jobs) as ex:
        for part in ex.map(_worker, [(shapes[i::jobs], i * 100003, seed_) for i in range(jobs) if shapes[i::jobs]]):
            recs += part
    # one heavily repeated multi-edge: two nodes sharing 130 edges (counts beyond one byte), dense and sparse
    from .c13 import BigGamma

    big = xgi.Hypergraph()
    big.add_nodes_from([0, 1, 2])
    for _ in range(130):
        big.add_edge([0, 1])
    big.add_edge([1, 2])
    bst, _ = hg.proj(big, BigGamma())
    bobs = [e for e in observe(big, BigGamma()) if e["kind"] in ("adjacency", "laplacian", "clique_motif", "degree", "raised")]
    for c in range(0, len(bobs), 10):
        recs.append({"rid": f"multi130.{c}", "what": "two nodes sharing 130 edges", "st": bst, "obs": bobs[c:c + 10]})
    nent = sum(len(r["obs"]) for r in recs)
    log(f"[C12] {nent} matrices on {len(shapes)} TLC-enumerated states ({t():.0f}s)")

    def selftest(records, bad):
        r0 = next(r for r in records if r["rid"] not in bad and any(e["kind"] == "adjacency" and e["m"] and len(e["m"]) > 1
                                                                     for e in r["obs"]))
        m = json.loads(json.dumps(r0))
        m["rid"] = "selftest"
        e = next(e for e in m["obs"] if e["kind"] == "adjacency" and len(e["m"]) > 1)
        e["m"][0][1] += 1  # an asymmetric entry
        v = common.validate_records([m], "TraceC12")
        if not v.get("selftest"):
            raise common.MachineryError("C12 self-test did not fire")
        return {"corrupted_records": 1, "rejected": 1}

    samples = [{"rid": r["rid"], "what": r["what"], "nodes": r["st"]["nodes"], "edges": r["st"]["edges"],
                "members": r["st"]["e2n"], "first_matrix": r["obs"][0]} for r in recs[:: max(1, len(recs) // 4)]][:4]
    mc["runs"] = [dict(mc), mc2]
    mc["states"] += mc2["states"]
    mc["transitions"] += mc2["transitions"]
    return obscore.report(
        "C12", tier, seed_, t, records=recs, trace_module="TraceC12", mc_stats=mc,
        rule="inputs = TLC-enumerated hypergraphs realised under 3 label families, edge-id relabellings and shuffled "
             "insertion orders x all combinations of order (None, 0..3 incl. absent orders), s in 1..3, weighted, "
             "sparse / dense, index maps, rescale_per_node, order / weight lists; every returned matrix is compared "
             "entry by entry with the TLA+ definition; distinct = (group of matrices, #nodes, multiset of edge sizes)",
        samples=samples, selftest=selftest,
        class_of=lambda r: (r["rid"].split(".")[1], len(r["st"]["nodes"]), tuple(sorted(len(m) for m in r["st"]["e2n"]))),
        extra={"matrices_compared": nent},
        assumptions=["floats are converted to the unique rational with denominator <= 10^4 within 1e-9 before TLC "
                     "compares them exactly", "positive semidefiniteness follows from the sum-of-squares identity "
                     "checked by TLC on the specification's Laplacian plus entrywise equality; no eigenvalue is computed",
                     "normalised Laplacian: the final 1/sqrt(d_i d_j) scaling is undone in the harness"])
