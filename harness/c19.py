"""C19: derived networks satisfy their set-theoretic definitions (spec/NetOps.tla)."""
import itertools
import json
import random
import warnings
from concurrent.futures import ProcessPoolExecutor

import xgi

from . import common, hg, kits, nets, obscore, sc
from .common import log
from .gamma import Gamma

EMPTYJ = {"nodes": [], "edges": [], "n2e": [], "e2n": [], "nak": [], "eak": [], "nattr": [], "eattr": [],
          "gattr": [], "uid": 0, "frozen": False}


class DualGamma:
    """labels of the dual: its nodes carry edge labels, its edges node labels"""

    def __init__(self, g):
        self.g = g
        self.prev = None
        self.name = g.name + "+dual"

    def inv_node(self, x):
        return self.g.inv_edge(x)

    def inv_edge(self, x):
        return self.g.inv_node(x)

    def inv_attrs(self, d, table="n"):
        return self.g.inv_attrs(d, {"n": "e", "e": "n"}.get(table, table))


def _rec(rid, what, fn, src, dst, res, anom, b=(False,) * 5, ns=(), es=(), k=0, src2=None):
    return {"rid": rid, "what": what, "fn": fn, "src": src, "src2": src2 or EMPTYJ, "dst": dst, "res": res,
            "b": list(b), "ns": list(ns), "es": list(es), "k": k, "anom": anom}


def _do(f):
    with warnings.catch_warnings():
        warnings.simplefilter("ignore")
        try:
            return f(), "ok"
        except Exception as ex:  # noqa: BLE001
            return None, hg.classify(ex)


def records_for(tag, j, g, rng, tier):
    """all derived-network records for one abstract state under one gamma"""
    out = []
    H = obscore.realise(j, g, rng, shuffle=True)
    for n in list(H.nodes)[:1]:
        H.nodes[n]["color"] = 3
    for e in list(H.edges)[:1]:
        H.edges[e]["wt"] = [5]
    H["wt"] = [7]
    src, sanom = hg.proj(H, g)
    nodes, edges = src["nodes"], src["edges"]
    ident = Gamma("ints", "int")

    def add(fn, what, result, res, gg=g, **kw):
        if result is None:
            dst, anom = EMPTYJ, []
        else:
            dst, anom = hg.proj(result, gg)
        after, a2 = hg.proj(H, g)
        if after != src:
            anom = anom + ["input-changed"]
        elif result is not None and not result.is_frozen:
            # the derived network belongs to the caller: editing it must not reach the source
            try:
                with warnings.catch_warnings():
                    warnings.simplefilter("ignore")
                    result.add_edge(["__derived__", "__only__"])
                    for e_ in list(result.edges)[:1]:
                        result.add_node_to_edge(e_, "__derived__")
                    result.remove_nodes_from(list(result.nodes)[:1])
                    result["__derived__"] = 1
            except Exception:  # noqa: BLE001
                pass
            again, _ = hg.proj(H, g)
            if again != src:
                anom = anom + ["result-shares-state-with-its-input"]
        out.append(_rec(f"{tag}.{fn}.{len(out)}", what, fn, src, dst, res, sorted(set(sanom + anom + a2)), **kw))

    # cleanup: all 32 flag combinations, not in place (in place is C05's business)
    combos = list(itertools.product([False, True], repeat=5))
    if tier == "quick":
        combos = rng.sample(combos, 10)
    for b in combos:
        r, res = _do(lambda: H.cleanup(isolates=b[0], singletons=b[1], multiedges=b[2], connected=b[3], relabel=b[4],
                                       in_place=False))
        gg = g.after_relabel() if (b[4] and res == "ok") else g
        add("cleanup", f"cleanup{b}", r, res, gg=gg, b=b)
    # subhypergraph: node and edge selections (also ids that do not exist)
    sels = []
    for _ in range(6 if tier == "quick" else 24):
        N = [n for n in nodes if rng.random() < 0.6] + ([77] if rng.random() < 0.2 else [])
        E = [e for e in edges if rng.random() < 0.7]
        sels.append((N, E, rng.random() < 0.5))
    sels.append((nodes, edges, True))
    for N, E, keep in sels:
        r, res = _do(lambda: xgi.subhypergraph(H, nodes=[g.node(n) for n in N], edges=[g.edge(e) for e in E],
                                               keep_isolates=keep))
        add("subhypergraph", f"subhypergraph(nodes={N}, edges={E}, keep_isolates={keep})", r, res, ns=N, es=E,
            b=(keep, False, False, False, False))
    # dual and its involution
    r, res = _do(lambda: H.dual())
    add("dual", "dual", r, res, gg=DualGamma(g))
    r, res = _do(lambda: H.dual().dual())
    add("dualdual", "dual of dual", r, res)
    # union with a second small network
    H2 = xgi.Hypergraph()
    H2.add_node(g.node(1), color=9)
    H2.add_edge([g.node(1), g.node(6)], wt=[8])
    H2.add_edge([g.node(0)], idx=g.edge(5))
    H2["color"] = 4
    src2, _ = hg.proj(H2, g)
    r, res = _do(lambda: H << H2)
    add("lshift", "H << H2", r, res, src2=src2)
    # complement (exponential: small node sets only)
    # without edges the maximum edge size is undefined: outside the definitions
    if len(nodes) <= 5 and edges:
        r, res = _do(lambda: xgi.complement(H))
        add("complement", "complement", r, res)
    for k in range(0, 4) if edges else ():
        r, res = _do(lambda: xgi.cut_to_order(H, k))
        add("cut_to_order", f"cut_to_order({k})", r, res, k=k)
    r, res = _do(lambda: xgi.largest_connected_hypergraph(H, in_place=False))
    add("largest_connected_hypergraph", "largest_connected_hypergraph(in_place=False)", r, res)
    r, res = _do(lambda: xgi.convert_labels_to_integers(H, in_place=False))
    add("convert_labels_to_integers", "convert_labels_to_integers(in_place=False)", r, res,
        gg=g.after_relabel() if res == "ok" else g)
    # relabelling twice: the second pass must record the labels it replaces, not the original ones
    H2, res = _do(lambda: xgi.convert_labels_to_integers(H, in_place=False))
    if H2 is not None and H2.num_nodes >= 2:
        g2 = g.after_relabel()
        victim = list(H2.nodes)[0]
        with warnings.catch_warnings():
            warnings.simplefilter("ignore")
            H2.remove_node(victim)
            if H2.num_edges >= 2:
                H2.remove_edge(list(H2.edges)[0])
        src2, a2 = hg.proj(H2, g2)
        for way, f in (("convert_labels_to_integers", lambda: xgi.convert_labels_to_integers(H2, in_place=False)),
                       ("cleanup", lambda: H2.cleanup(isolates=True, singletons=True, multiedges=True, connected=False,
                                                      relabel=True, in_place=False))):
            r, res = _do(f)
            g3 = g2.after_relabel()
            dst, anom = hg.proj(r, g3) if r is not None else (EMPTYJ, [])
            out.append(_rec(f"{tag}.relabel_twice.{way}", f"{way} of an already relabelled network", "convert_labels_to_integers",
                            src2, dst, res, sorted(set(a2 + anom))))
    return out


def sc_records(tag, j, g, rng):
    """simplicial complexes: k_skeleton, from_max_simplices, cut_to_order"""
    out = []
    S = xgi.SimplicialComplex()
    S.add_nodes_from([g.node(n) for n in j["nodes"]])
    with warnings.catch_warnings():
        warnings.simplefilter("ignore")
        # one call per simplex: the bulk formats are told apart by looking into the first item, which is
        # ambiguous when the labels are iterables themselves
        for m in j["e2n"]:
            if m:
                S.add_simplex([g.node(n) for n in m])
    src, sanom = hg.proj(S, g)
    for k in range(0, 3) if src["edges"] else ():
        r, res = _do(lambda: xgi.k_skeleton(S, k))
        dst, anom = hg.proj(r, g) if r is not None else (EMPTYJ, [])
        out.append(_rec(f"{tag}.k_skeleton.{k}", f"k_skeleton({k})", "k_skeleton", src, dst, res, sorted(set(sanom + anom)), k=k))
    r, res = _do(lambda: xgi.from_max_simplices(S))
    dst, anom = hg.proj(r, g) if r is not None else (EMPTYJ, [])
    out.append(_rec(f"{tag}.from_max_simplices", "from_max_simplices", "from_max_simplices", src, dst, res,
                    sorted(set(sanom + anom))))
    # cleanup of a complex (no singleton / multi-edge options: as the hypergraph cleanup that keeps both)
    for iso, conn, rel in itertools.product([False, True], repeat=3):
        r, res = _do(lambda: S.cleanup(isolates=iso, connected=conn, relabel=rel, in_place=False))
        gg = g.after_relabel() if (rel and res == "ok") else g
        dst, anom = hg.proj(r, gg) if r is not None else (EMPTYJ, [])
        after, a2 = hg.proj(S, g)
        out.append(_rec(f"{tag}.cleanup.{int(iso)}{int(conn)}{int(rel)}", f"SimplicialComplex.cleanup(isolates={iso}, connected={conn}, relabel={rel})",
                        "cleanup", src, dst, res, sorted(set(sanom + anom + a2 + ([] if after == src else ["input-changed"]))),
                        b=(iso, True, True, conn, rel)))
    # << with a complex on the left: still the disjoint union of the edges, as a hypergraph
    S2 = xgi.SimplicialComplex()
    with warnings.catch_warnings():
        warnings.simplefilter("ignore")
        S2.add_simplex([g.node(n) for n in (j["nodes"][:2] or [0, 1])])
        S2.add_simplex([g.node(1), g.node(6)])
    src2, _ = hg.proj(S2, g)
    r, res = _do(lambda: S << S2)
    dst, anom = hg.proj(r, g) if r is not None else (EMPTYJ, [])
    out.append(_rec(f"{tag}.lshift", "SimplicialComplex << SimplicialComplex", "lshift", src, dst, res, sorted(set(sanom + anom)),
                    src2=src2))
    return out


def di_records(tag, j, g, rng):
    """DiHypergraph.cleanup over its flag combinations, in place and not (spec NetOps.DiCleanupOK)"""
    out = []
    if not j["nodes"]:
        return out
    order = list(j["nodes"])
    rng.shuffle(order)  # isolated nodes are not the last ones created
    split = []
    for m in j["e2n"]:
        t, h = [], []
        for n in m:
            c = rng.choice(["t", "h", "th"])
            if "t" in c:
                t.append(n)
            if "h" in c:
                h.append(n)
        split.append((t, h))

    def make():
        D = xgi.DiHypergraph()
        D.add_nodes_from([g.node(n) for n in order])
        for e, (t, h) in zip(j["edges"], split):
            D.add_edge(([g.node(n) for n in t], [g.node(n) for n in h]), idx=g.edge(e))
        return D

    for iso, rel, inplace in itertools.product([False, True], repeat=3):
        D = make()
        before = (list(D.nodes), {e: (set(D._edge[e]["in"]), set(D._edge[e]["out"])) for e in D.edges})
        r, res = _do(lambda: D.cleanup(isolates=iso, relabel=rel, in_place=inplace))
        anom = []
        rec = {"rid": f"{tag}.dicleanup.{int(iso)}{int(rel)}{int(inplace)}", "fn": "dicleanup", "res": res,
               "what": f"DiHypergraph.cleanup(isolates={iso}, relabel={rel}, in_place={inplace}) ({g.name})",
               "b": [iso, rel, inplace], "dn": list(order), "di": list(j["edges"]), "dt": [t for t, _ in split],
               "dh": [h for _, h in split], "rn": [], "ri": [], "rt": [], "rh": [], "on": [], "oe": [],
               "src": dict(EMPTYJ, nodes=list(order), e2n=[list(m) for m in j["e2n"]]), "src2": EMPTYJ, "dst": EMPTYJ,
               "ns": [], "es": [], "k": 0}
        if res == "ok":
            if inplace and r is not D and r is not None:
                anom.append("in-place-cleanup-returned-another-object")
            R = D if inplace else r
            if not inplace and (list(D.nodes), {e: (set(D._edge[e]["in"]), set(D._edge[e]["out"])) for e in D.edges}) != before:
                anom.append("input-changed")
            try:
                if rel:
                    lab = lambda x: x if isinstance(x, int) and not isinstance(x, bool) else -7  # noqa: E731
                    rec["rn"] = [lab(n) for n in R.nodes]
                    rec["ri"] = [lab(e) for e in R.edges]
                    rec["rt"] = [[lab(n) for n in R._edge[e]["in"]] for e in R.edges]
                    rec["rh"] = [[lab(n) for n in R._edge[e]["out"]] for e in R.edges]
                    rec["on"] = [g.inv_node(R._node_attr[n]["label"]) for n in R.nodes]
                    rec["oe"] = [g.inv_edge(R._edge_attr[e]["label"]) for e in R.edges]
                else:
                    rec["rn"] = rec["on"] = [g.inv_node(n) for n in R.nodes]
                    rec["ri"] = rec["oe"] = [g.inv_edge(e) for e in R.edges]
                    rec["rt"] = [[g.inv_node(n) for n in R._edge[e]["in"]] for e in R.edges]
                    rec["rh"] = [[g.inv_node(n) for n in R._edge[e]["out"]] for e in R.edges]
            except Exception as ex:  # noqa: BLE001
                anom.append(f"result-unreadable.{hg.classify(ex)}")
        rec["anom"] = anom
        out.append(rec)
    return out


def _worker(args):
    states, base, seed_, tier = args
    out = []
    for k, j in enumerate(states):
        rng = random.Random(seed_ * 104729 + base + k)
        # every fourth shape with labels that are themselves iterables (lattice coordinates)
        g = Gamma(*(nets.FAMS + [("tuple", "int"), ("negint", "int")])[(base + k) % (len(nets.FAMS) + 2)])
        out += records_for(f"s{base + k}", j, g, rng, tier)
        out += sc_records(f"s{base + k}sc", j, g, rng)
        out += di_records(f"s{base + k}di", j, g, rng)
    return out


BUD = {"quick": {"shapes": {"NN": 4, "ME": 3, "MinSize": 0}, "max_shapes": 260},
       "thorough": {"shapes": {"NN": 4, "ME": 4, "MinSize": 0}, "max_shapes": 6000}}


def run(tier, seed_):
    t = common.Timer()
    b = BUD[tier]
    shapes, mc = obscore.enumerate_shapes("MC_ShapesH", b["shapes"], max_states=b["max_shapes"])
    log(f"[C19] TLC enumerated {mc['states']} hypergraph states, using {len(shapes)} ({t():.0f}s)")
    jobs = common.NCPU
    recs = []
    with ProcessPoolExecutor(max_workers=jobs) as ex:
        for part in ex.map(_worker, [(shapes[i::jobs], i * 100003, seed_, tier) for i in range(jobs) if shapes[i::jobs]]):
            recs += part
    log(f"[C19] {len(recs)} derived-network records ({t():.0f}s)")

    def selftest(records, bad):
        m = json.loads(json.dumps(next(r for r in records if r["rid"] not in bad and r["fn"] == "subhypergraph"
                                       and any(r["dst"]["e2n"]))))
        m["rid"] = "selftest"
        k = next(k for k, x in enumerate(m["dst"]["e2n"]) if x)
        m["dst"]["e2n"][k] = m["dst"]["e2n"][k][1:]  # an edge cut through
        v = common.validate_records([m], "TraceNetOps")
        if "C19:subhypergraph" not in v.get("selftest", []):
            raise common.MachineryError(f"C19 self-test did not fire: {v}")
        return {"corrupted_records": 1, "rejected": 1}

    samples = [{"rid": r["rid"], "what": r["what"], "src_nodes": r["src"]["nodes"], "src_members": r["src"]["e2n"],
                "dst_nodes": r["dst"]["nodes"], "dst_edges": r["dst"]["edges"], "dst_members": r["dst"]["e2n"]}
               for r in recs[:: max(1, len(recs) // 6)]][:6]
    return obscore.report(
        "C19", tier, seed_, t, records=recs, trace_module="TraceNetOps", mc_stats=mc,
        rule="inputs = TLC-enumerated hypergraphs (MC_ShapesH) realised under 3 label families with shuffled "
             "insertion order, x cleanup flag combinations, random node / edge selections for subhypergraph, dual "
             "and dual-of-dual, <<, complement, cut_to_order / k_skeleton for every order, from_max_simplices, "
             "largest_connected_hypergraph, convert_labels_to_integers; distinct = (function, parameters, #nodes, "
             "multiset of edge sizes)",
        samples=samples, selftest=selftest,
        class_of=lambda r: (r["fn"], tuple(r["b"]), r["k"], len(r["src"]["nodes"]),
                            tuple(sorted(len(m) for m in r["src"]["e2n"]))),
        assumptions=["orders and ids that the documentation leaves open (node order of the dual, edge ids of the "
                     "complement, which of several largest components) are left open in NetOps.tla",
                     "cleanup on a network whose duplicate classes cannot be ordered by python is outside the domain"])
