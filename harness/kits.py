"""Class kits: which specification modules, universes and adapters serve each class."""
import xgi

from . import core, drive_hg, hg
from .gamma import Gamma

FAM_H = [
    lambda: Gamma("ints", "int"),
    lambda: Gamma("shift", "int"),
    lambda: Gamma("str", "int"),
    lambda: Gamma("npint", "npint"),
    lambda: Gamma("ints", "intfloat"),
]

HG_KIT = core.register(core.Kit(
    "H",
    mc_module="MC_HG", trace_module="TraceHG",
    universes={
        "quick": {"NN": 2, "EdgeIds": "{0, 1, 100}", "MaxUid": 2, "MaxEdges": 2, "MaxAttr": 0, "Rich": "FALSE"},
        "thorough": {"NN": 2, "EdgeIds": "{0, 1, 100}", "MaxUid": 2, "MaxEdges": 2, "MaxAttr": 1, "Rich": "TRUE"},
    },
    invariants=["InvIntegrity", "InvUidFresh"],
    properties=["PropAddsPreserve", "PropAddNodeToEdgePreserve", "PropSwapPreserves", "PropFrozen",
                "PropErrNoChange"],
    proj=hg.proj, build=hg.build, call=hg.call, gen=drive_hg.rand_op, cls=xgi.Hypergraph,
    families=FAM_H,
))
