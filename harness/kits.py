"""Class kits: which specification modules, universes and adapters serve each class."""
import xgi

from . import core, dhg, drive_hg, hg, sc
from .gamma import Gamma

FAM_H = [
    lambda: Gamma("ints", "int"),
    lambda: Gamma("shift", "int"),
    lambda: Gamma("str", "int"),
    lambda: Gamma("npint", "npint"),
    lambda: Gamma("ints", "intfloat"),
    lambda: Gamma("bigint", "int"),  # equal but not identical label objects
    lambda: Gamma("mixed", "int"),   # labels that cannot be ordered against each other
    lambda: Gamma("obj", "int"),     # labels hashable by identity only
    lambda: Gamma("negint", "int"),  # hash(-1) == hash(-2)
]

HG_KIT = core.register(core.Kit(
    "H",
    mc_module="MC_HG", trace_module="TraceHG",
    universes={
        "c18_quick": {"NN": 2, "EdgeIds": "{0, 100}", "MaxUid": 1, "MaxEdges": 2, "MaxAttr": 0, "MaxLevel": 99,
                      "Rich": "FALSE", "WithFreeze": "TRUE"},
        "c18_thorough": {"NN": 2, "EdgeIds": "{0, 1, 100}", "MaxUid": 2, "MaxEdges": 2, "MaxAttr": 0, "MaxLevel": 99,
                         "Rich": "FALSE", "WithFreeze": "TRUE"},
        "quick": {"NN": 2, "EdgeIds": "{0, 1, 100}", "MaxUid": 2, "MaxEdges": 2, "MaxAttr": 0, "MaxLevel": 99,
                  "Rich": "FALSE", "WithFreeze": "FALSE"},
        "thorough": {"NN": 3, "EdgeIds": "{0, 100}", "MaxUid": 2, "MaxEdges": 2, "MaxAttr": 0, "MaxLevel": 99,
                     "Rich": "FALSE", "WithFreeze": "FALSE"},
    },
    invariants=["InvIntegrity", "InvUidFresh"],
    properties=["PropAddsPreserve", "PropAddNodeToEdgePreserve", "PropSwapPreserves", "PropFrozen",
                "PropErrNoChange"],
    proj=hg.proj, build=hg.build, call=hg.call, gen=drive_hg.rand_op, cls=xgi.Hypergraph,
    families=FAM_H,
))

DHG_KIT = core.register(core.Kit(
    "DH",
    mc_module="MC_DHG", trace_module="TraceDHG",
    universes={
        "c18_quick": {"NN": 2, "EdgeIds": "{0, 100}", "MaxUid": 1, "MaxEdges": 2, "MaxAttr": 0, "MaxLevel": 99,
                      "Rich": "FALSE", "WithFreeze": "TRUE"},
        "c18_thorough": {"NN": 2, "EdgeIds": "{0, 1, 100}", "MaxUid": 2, "MaxEdges": 2, "MaxAttr": 0, "MaxLevel": 99,
                         "Rich": "FALSE", "WithFreeze": "TRUE"},
        "quick": {"NN": 2, "EdgeIds": "{0, 1, 100}", "MaxUid": 2, "MaxEdges": 2, "MaxAttr": 0, "MaxLevel": 99,
                  "Rich": "FALSE", "WithFreeze": "FALSE"},
        "thorough": {"NN": 2, "EdgeIds": "{0, 1, 100}", "MaxUid": 2, "MaxEdges": 2, "MaxAttr": 1, "MaxLevel": 99,
                     "Rich": "FALSE", "WithFreeze": "FALSE"},
    },
    invariants=["InvDiIntegrity", "InvUidFresh"],
    properties=["PropAddsPreserve", "PropAddNodeToEdgePreserve", "PropFrozen", "PropErrNoChange"],
    proj=dhg.proj, build=dhg.build, call=dhg.call, gen=dhg.rand_op, cls=xgi.DiHypergraph,
    families=FAM_H,
))

SC_KIT = core.register(core.Kit(
    "SC",
    mc_module="MC_SC", trace_module="TraceSC",
    universes={
        "c18_quick": {"NN": 3, "EdgeIds": "{0, 100}", "MaxUid": 4, "MaxEdges": 4, "MaxAttr": 0, "MaxLevel": 3,
                      "Rich": "FALSE", "WithFreeze": "TRUE"},
        "c18_thorough": {"NN": 3, "EdgeIds": "{0, 100}", "MaxUid": 4, "MaxEdges": 4, "MaxAttr": 0, "MaxLevel": 5,
                         "Rich": "FALSE", "WithFreeze": "TRUE"},
        "quick": {"NN": 3, "EdgeIds": "{0, 100}", "MaxUid": 4, "MaxEdges": 4, "MaxAttr": 0, "MaxLevel": 4,
                  "Rich": "FALSE", "WithFreeze": "FALSE"},
        "thorough": {"NN": 3, "EdgeIds": "{0, 100}", "MaxUid": 5, "MaxEdges": 5, "MaxAttr": 0, "MaxLevel": 6,
                     "Rich": "FALSE", "WithFreeze": "FALSE"},
    },
    invariants=["InvIntegrity", "InvUidFresh", "InvClosed", "InvNoDup", "InvNoEmpty"],
    properties=["PropAddsPreserve", "PropRemoveExact", "PropMaxOrder", "PropFrozen"],
    proj=sc.proj, build=sc.build, call=sc.call, gen=sc.rand_op, cls=xgi.SimplicialComplex,
    # a complex closes itself through the bulk list formats, which are ambiguous for labels mixing
    # strings and numbers (core.in_domain): that family is left out for complexes
    families=[f for k, f in enumerate(FAM_H) if k != 6], obs=sc.obs,
))
