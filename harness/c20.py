"""C20: layouts and drawings represent every node and edge faithfully (spec/Scene.tla)."""
import json
import math
import random
import signal
import warnings
from concurrent.futures import ProcessPoolExecutor

import numpy as np
import xgi

from . import common, hg, nets, obscore
from .common import log
from .gamma import Gamma


def base(rid, kind, fn, st, **kw):
    r = {"rid": rid, "what": fn, "kind": kind, "fn": fn, "st": st, "mo": -1, "sc": False, "res": "ok", "keys": [], "ok": [],
         "ekeys": [], "eok": [], "hasedges": False, "npos": [], "epos": [], "markers": [], "lines": [], "polys": []}
    r.update(kw)
    return r


def good(v):
    a = np.asarray(v, dtype=float)
    return bool(a.shape == (2,) and np.all(np.isfinite(a)))


LAYOUTS = [
    ("random_layout", lambda H: xgi.random_layout(H, seed=1)),
    ("pairwise_spring_layout", lambda H: xgi.pairwise_spring_layout(H, seed=1)),
    ("barycenter_spring_layout", lambda H: xgi.barycenter_spring_layout(H, seed=1)),
    ("barycenter_spring_layout(return_phantom_graph)", lambda H: xgi.barycenter_spring_layout(H, return_phantom_graph=True, seed=1)[0]),
    ("weighted_barycenter_spring_layout", lambda H: xgi.weighted_barycenter_spring_layout(H, seed=1)),
    ("circular_layout", lambda H: xgi.circular_layout(H)),
    ("circular_layout(center,radius)", lambda H: xgi.circular_layout(H, center=[2, 3], radius=2)),
    ("spiral_layout", lambda H: xgi.spiral_layout(H)),
    ("spiral_layout(equidistant)", lambda H: xgi.spiral_layout(H, equidistant=True)),
    ("barycenter_kamada_kawai_layout", lambda H: xgi.barycenter_kamada_kawai_layout(H)),
]


def convex_positions(nodes):
    """injective integer positions in convex position (points of a parabola)"""
    return {n: np.array([k - len(nodes) // 2, (k - len(nodes) // 2) ** 2], dtype=float) for k, n in enumerate(nodes)}


def observe(tag, H, g, is_sc, rng, plt):
    iN, iE = g.inv_node, g.inv_edge
    st, _ = hg.proj(H, g)
    out = []

    def guarded(rid, kind, fn, f, **kw):
        signal.alarm(30)
        try:
            with warnings.catch_warnings():
                warnings.simplefilter("ignore")
                out.append(f())
        except Exception as ex:  # noqa: BLE001
            out.append(base(rid, kind, fn, st, res="timeout" if type(ex).__name__ == "_Timeout" else hg.classify(ex), **kw))
        finally:
            signal.alarm(0)
            plt.close("all")

    has_pair = any(len(m) >= 2 for m in st["e2n"])
    for name, f in LAYOUTS:
        def lay(name=name, f=f):
            pos = f(H)
            return base(f"{tag}.{name}", "layout", name, st, keys=[iN(n) for n in pos], ok=[good(v) for v in pos.values()])
        guarded(f"{tag}.{name}", "layout", name, lay)

    def bip():
        npos, epos = xgi.bipartite_spring_layout(H, seed=1)
        return base(f"{tag}.bipartite_spring_layout", "layout", "bipartite_spring_layout", st,
                    keys=[iN(n) for n in npos], ok=[good(v) for v in npos.values()], hasedges=True,
                    ekeys=[iE(e) for e in epos], eok=[good(v) for v in epos.values()])
    guarded(f"{tag}.bipartite_spring_layout", "layout", "bipartite_spring_layout", bip)
    pos = convex_positions(list(H.nodes))
    if all(len(m) for m in st["e2n"]):
        def bary():
            # positions given in another key order than H.nodes (label-sorted, hand-written, reused ...)
            items = list(pos.items())
            rng.shuffle(items)
            ep = xgi.edge_positions_from_barycenters(H, dict(items))
            epos = []
            for e, p in ep.items():
                k = len(H._edge[e])
                sx, sy = p[0] * k, p[1] * k
                exact = abs(sx - round(sx)) < 1e-9 and abs(sy - round(sy)) < 1e-9
                epos.append([iE(e), int(round(sx)), int(round(sy)), bool(exact)])
            return base(f"{tag}.bary", "bary", "edge_positions_from_barycenters", st,
                        npos=[[iN(n), int(p[0]), int(p[1])] for n, p in pos.items()], epos=epos)
        guarded(f"{tag}.bary", "bary", "edge_positions_from_barycenters", bary)
    if not has_pair:
        return out
    items_ = list(pos.items())
    rng.shuffle(items_)
    pos = dict(items_)  # hand-written / reused position dicts are not in node order
    back = {(float(p[0]), float(p[1])): iN(n) for n, p in pos.items()}

    def node_at(pt):
        return back.get((float(round(pt[0], 6)), float(round(pt[1], 6))), -3)

    def rendered(coll):
        """the markers that are actually drawn: matplotlib masks points whose colour or size is not finite"""
        off = coll.get_offsets()
        rows = []
        for k_ in range(len(off)):
            p_ = off[k_]
            if np.ma.is_masked(p_) or not np.all(np.isfinite(np.asarray(np.ma.filled(p_, np.nan), dtype=float))):
                continue
            rows.append(node_at(np.asarray(p_, dtype=float)))
        sz = np.asarray(np.ma.filled(coll.get_sizes(), np.nan), dtype=float)
        if len(sz) == len(off) and len(sz) and not np.all(np.isfinite(sz)):
            rows = [r_ for r_, z in zip(rows, sz) if np.isfinite(z)]
        return rows

    def rendered_count(coll):
        off = coll.get_offsets()
        return [k_ for k_ in range(len(off)) if not np.ma.is_masked(off[k_])]

    def scene(node_coll, dyad_coll, edge_coll):
        markers = rendered(node_coll) if node_coll is not None else [-5]
        lines = [[node_at(s[0]), node_at(s[-1])] for s in dyad_coll.get_segments()]
        polys = []
        for path in edge_coll.get_paths():
            v = path.vertices
            pts = v[:-1] if len(v) > 1 and np.allclose(v[0], v[-1]) else v
            polys.append([node_at(p) for p in pts])
        return markers, lines, polys

    styles = [dict(), dict(node_fc="red", node_size=5), dict(node_fc=H.nodes.degree, node_size=H.nodes.degree),
              dict(node_size={n: 3 + k for k, n in enumerate(H.nodes)}, node_labels=True, hyperedge_labels=True),
              # values that are not finite for some nodes (a statistic that is undefined there); the same value everywhere
              dict(node_fc={n: (float("nan") if k % 2 else 0.5) for k, n in enumerate(H.nodes)}),
              dict(node_size={n: 7 for n in H.nodes}, node_lw={n: 2 for n in H.nodes}),
              dict(node_fc=H.nodes.clustering_coefficient, node_size=[6.0] * H.num_nodes),
              # the documented per-ID form with colour names / RGB tuples
              dict(node_fc={n: ("red" if k % 2 else "tab:blue") for k, n in enumerate(H.nodes)}),
              dict(node_fc={n: (0.1, 0.2, 0.3) for n in H.nodes}, node_ec={n: "black" for n in H.nodes})]
    mos = [None, 1, 2, 3, 0]
    for si, style in enumerate(styles):
        mo = mos[si % len(mos)]
        if is_sc:
            for mo2 in (0, 1, 2, 3) if si == 0 else ():
                def ds2(mo2=mo2):
                    ax, (dy, ed) = xgi.draw_simplices(H, pos=pos, max_order=mo2)
                    _, lines, polys = scene(None, dy, ed)
                    return base(f"{tag}.draw_simplices.mo{mo2}", "draw", "draw_simplices", st, sc=True, mo=mo2, lines=lines,
                                polys=polys)
                guarded(f"{tag}.draw_simplices.mo{mo2}", "draw", "draw_simplices", ds2, sc=True)

            def ds(mo=mo):
                ax, (dy, ed) = xgi.draw_simplices(H, pos=pos, max_order=mo)
                _, lines, polys = scene(None, dy, ed)
                return base(f"{tag}.draw_simplices.{si}", "draw", "draw_simplices", st, sc=True, mo=-1 if mo is None else mo,
                            lines=lines, polys=polys)
            guarded(f"{tag}.draw_simplices.{si}", "draw", "draw_simplices", ds, sc=True)

            def dr(mo=mo, style=style):
                ax, (nc, dy, ed) = xgi.draw(H, pos=pos, max_order=mo, **{k: v for k, v in style.items() if k != "hyperedge_labels"})
                markers, lines, polys = scene(nc, dy, ed)
                return base(f"{tag}.draw.{si}", "draw", "draw", st, sc=True, mo=-1 if mo is None else mo, markers=markers,
                            lines=lines, polys=polys)
            guarded(f"{tag}.draw.{si}", "draw", "draw", dr, sc=True)
        else:
            def dr(mo=mo, style=style):
                ax, (nc, dy, ed) = xgi.draw(H, pos=pos, max_order=mo, **style)
                markers, lines, polys = scene(nc, dy, ed)
                return base(f"{tag}.draw.{si}", "draw", "draw", st, mo=-1 if mo is None else mo, markers=markers, lines=lines,
                            polys=polys)
            guarded(f"{tag}.draw.{si}", "draw", "draw", dr)

            def dh(mo=mo):
                ax, (dy, ed) = xgi.draw_hyperedges(H, pos=pos, max_order=mo, edge_fc=H.edges.size if si % 2 else None)
                _, lines, polys = scene(None, dy, ed)
                return base(f"{tag}.draw_hyperedges.{si}", "draw", "draw_hyperedges", st, mo=-1 if mo is None else mo,
                            markers=[-5], lines=lines, polys=polys)
            guarded(f"{tag}.draw_hyperedges.{si}", "draw", "draw_hyperedges", dh)

    # the default layout (no pos given), again after an edit that keeps the numbers of nodes and edges
    if not is_sc:
        def default_twice():
            K = H.copy()
            xgi.draw(K)
            plt.close("all")
            iso = [n for n in K.nodes if not K._node[n]]
            es = [e for e in K.edges if len(K._edge[e]) >= 2]
            if iso and es:
                K.remove_node(iso[0])
                K.add_node_to_edge(es[0], "__new__")
            elif es:
                old_ = next(iter(K._edge[es[0]]))
                K.remove_node_from_edge(es[0], old_, remove_empty=False)
                K.add_node_to_edge(es[0], old_)
            ax, (nc, dy, ed) = xgi.draw(K)
            ok_ = len(rendered_count(nc)) == K.num_nodes
            return base(f"{tag}.draw.default_pos", "layout", "draw(pos=None) after a count-preserving edit", st,
                        keys=st["nodes"], ok=[bool(ok_)] * len(st["nodes"]))
        guarded(f"{tag}.draw.default_pos", "layout", "draw(pos=None) after a count-preserving edit", default_twice)

    def dn():
        ax, nc = xgi.draw_nodes(H, pos=pos, node_fc=H.nodes.degree)
        return base(f"{tag}.draw_nodes", "draw", "draw_nodes", st, sc=is_sc, mo=0,
                    markers=rendered(nc),
                    lines=[] if not is_sc else [], polys=[])
    # draw_nodes only: compare the markers (scene clauses for lines / polygons do not apply)
    try:
        signal.alarm(30)
        with warnings.catch_warnings():
            warnings.simplefilter("ignore")
            ax, nc = xgi.draw_nodes(H, pos=pos, node_fc=H.nodes.degree)
            mk = rendered(nc)
        r = base(f"{tag}.draw_nodes", "layout", "draw_nodes", st, keys=mk, ok=[m == n for m, n in zip(mk, st["nodes"])])
        out.append(r)
    except Exception as ex:  # noqa: BLE001
        out.append(base(f"{tag}.draw_nodes", "layout", "draw_nodes", st, res=hg.classify(ex)))
    finally:
        signal.alarm(0)
        plt.close("all")
    return out


class _Timeout(Exception):
    pass


def _alarm(signum, frame):
    raise _Timeout()


def _worker(args):
    import matplotlib

    matplotlib.use("Agg")
    import matplotlib.pyplot as plt

    states, base_, seed_ = args
    signal.signal(signal.SIGALRM, _alarm)
    out = []
    for k, j in enumerate(states):
        rng = random.Random(seed_ * 179424673 + base_ + k)
        g = Gamma(*(nets.FAMS + [("npint", "npint"), ("floatnode", "int")])[(base_ + k) % 5])
        H = obscore.realise(j, g, rng, shuffle=True)
        out += observe(f"s{base_ + k}", H, g, False, rng, plt)
        if k % 3 == 0:  # labels of several types in one hypergraph ("whatever its labels")
            gm = Gamma("mixed", "int")
            out += observe(f"s{base_ + k}mx", obscore.realise(j, gm, rng, shuffle=True), gm, False, rng, plt)
        if k % 3 == 1:  # labels that are sequences themselves (grid coordinates)
            gm = Gamma("tuple", "int")
            out += observe(f"s{base_ + k}tp", obscore.realise(j, gm, rng, shuffle=True), gm, False, rng, plt)
        S = xgi.SimplicialComplex()
        S.add_nodes_from([g.node(n) for n in j["nodes"]])
        with warnings.catch_warnings():
            warnings.simplefilter("ignore")
            for m in j["e2n"]:
                if m:
                    S.add_simplex([g.node(n) for n in m])
        out += observe(f"s{base_ + k}sc", S, g, True, rng, plt)
    return out


BUD = {"quick": {"shapes": {"NN": 4, "ME": 3, "MinSize": 1}, "max_shapes": 48},
       "thorough": {"shapes": {"NN": 5, "ME": 4, "MinSize": 1}, "max_shapes": 1500}}


def run(tier, seed_):
    t = common.Timer()
    b = BUD[tier]
    shapes, mc = obscore.enumerate_shapes("MC_ShapesH", b["shapes"], max_states=None)
    shapes = [j for j in shapes if j["nodes"]]
    rng = random.Random(seed_)
    if len(shapes) > b["max_shapes"]:
        shapes = rng.sample(shapes, b["max_shapes"])
    jobs = common.NCPU
    recs = []
    with ProcessPoolExecutor(max_workers=jobs) as ex:
        for part in ex.map(_worker, [(shapes[i::jobs], i * 100003, seed_) for i in range(jobs) if shapes[i::jobs]]):
            recs += part
    log(f"[C20] {len(recs)} layout / barycenter / drawing records on {len(shapes)} TLC-enumerated states x 2 classes ({t():.0f}s)")

    def selftest(records, bad):
        m = json.loads(json.dumps(next(r for r in records if r["rid"] not in bad and r["kind"] == "draw" and r["fn"] == "draw"
                                       and not r["sc"] and len(r["markers"]) >= 2)))
        m["rid"] = "selftest"
        m["markers"] = list(reversed(m["markers"]))  # markers in the wrong order
        v = common.validate_records([m], "TraceScene")
        if not v.get("selftest"):
            raise common.MachineryError("C20 self-test did not fire")
        return {"corrupted_records": 1, "rejected": 1}

    samples = [{"rid": r["rid"], "fn": r["fn"], "members": r["st"]["e2n"], "markers": r["markers"], "lines": r["lines"],
                "polygons": r["polys"]} for r in recs if r["kind"] == "draw"][:5]
    return obscore.report(
        "C20", tier, seed_, t, records=recs, trace_module="TraceScene", mc_stats=mc,
        rule="inputs = TLC-enumerated hypergraphs (isolated nodes, singletons, multi-edges) and the simplicial complexes "
             "they generate, under 3 label families; every layout function (+ options), edge_positions_from_barycenters "
             "with integer positions, draw / draw_nodes / draw_hyperedges / draw_simplices with scalar, per-id and "
             "stat-valued style arguments and max_order in {None,0,1,2,3}; distinct = (function, class, #nodes, sorted "
             "edge sizes)",
        samples=samples, selftest=selftest,
        class_of=lambda r: (r["fn"], r["sc"], len(r["st"]["nodes"]), tuple(sorted(len(m) for m in r["st"]["e2n"]))),
        assumptions=["node positions are injective integers in convex position, so polygon vertex sets and line ends map "
                     "back to nodes uniquely", "hull=True polygons are not analysed"])
