"""C04, provenance part: every way of obtaining a network, followed by additions with
automatic and explicit ids (spec/TraceProv.tla)."""
import io
import json
import os
import pickle
import random
import tempfile
import warnings
from concurrent.futures import ProcessPoolExecutor

import networkx as nx
import numpy as np
import pandas as pd
import xgi

from . import common, dhg, hg, nets, obscore
from .common import log
from .gamma import UNKNOWN, Gamma


class AnyGamma:
    """labels produced by converters / generators are arbitrary: ints keep their value (so that the
    id counter can be judged), everything else is numbered from 100 in order of appearance"""
    prev = None
    name = "any"

    def __init__(self):
        self.n, self.e = {}, {}

    def _inv(self, table, x, base):
        if isinstance(x, (int, np.integer)) and not isinstance(x, bool) and 0 <= int(x) < 100:
            return int(x)
        if isinstance(x, float) and x.is_integer() and 0 <= x < 100:
            return int(x)
        try:
            if x not in table:
                table[x] = base + len(table)
            return table[x]
        except TypeError:
            return UNKNOWN

    def inv_node(self, x):
        if x is None:
            return -1
        return self._inv(self.n, x, 200)

    def inv_edge(self, x):
        if x is None:
            return -1
        return self._inv(self.e, x, 100)

    def inv_attrs(self, d, table="n"):
        return []  # attributes play no role here


def proj(H, g):
    j, anom = dhg.proj(H, g) if isinstance(H, xgi.DiHypergraph) else hg.proj(H, g)
    j["uid"] = min(j["uid"], 10 ** 6)  # far beyond every id of the abstract universe either way (TLC integers are 32 bit)
    return j, anom


def sources(j, g, tmpdir, rng):
    """(how, thunk) pairs: each thunk returns a freshly obtained network"""
    H0 = obscore.realise(j, g, rng, shuffle=False)
    members = [[g.node(n) for n in m] for m in j["e2n"]]
    nonempty = [m for m in members if m]
    ids_desc = list(range(len(members) + 2, 2, -1))  # explicit ids in decreasing order
    S = []
    A = S.append
    A(("Hypergraph(list)", lambda: xgi.Hypergraph(members)))
    A(("Hypergraph(dict, ids 0..)", lambda: xgi.Hypergraph({k: m for k, m in enumerate(members)})))
    A(("Hypergraph(dict, decreasing ids)", lambda: xgi.Hypergraph({i: m for i, m in zip(ids_desc, members)})))
    A(("Hypergraph(Hypergraph)", lambda: xgi.Hypergraph(H0)))
    A(("add_edges_from((m, id)) decreasing", lambda: _bulk([(m, i) for m, i in zip(members, ids_desc)])))
    A(("add_edges_from((m, id, attr)) decreasing", lambda: _bulk([(m, i, {"w": 1}) for m, i in zip(members, ids_desc)])))
    A(("add_edge(idx=0)", lambda: _single0(members)))
    A(("add_node_to_edge", lambda: _a2e(members)))
    A(("from_hyperedge_list", lambda: xgi.from_hyperedge_list(members)))
    A(("from_hyperedge_dict", lambda: xgi.from_hyperedge_dict({k: m for k, m in enumerate(members)})))
    A(("copy", lambda: H0.copy()))
    A(("pickle", lambda: pickle.loads(pickle.dumps(H0))))

    def sparse(cls=xgi.Hypergraph):
        """ids that are not 0..m-1: an edge removed, a gap left by an explicit id"""
        K = cls()
        if cls is xgi.SimplicialComplex:
            K.add_simplices_from(nonempty)
            K.add_simplex([g.node(5), g.node(6)], idx=9)
        elif cls is xgi.DiHypergraph:
            K.add_edges_from([(m[:1], m[1:]) for m in nonempty])
            K.add_edge(([g.node(5)], [g.node(6)]), idx=9)
        else:
            K.add_edges_from(members)
            K.add_edge([g.node(5), g.node(6)], idx=9)
        if K.num_edges > 1:
            first = list(K.edges)[0]
            (K.remove_simplex_id if cls is xgi.SimplicialComplex else K.remove_edge)(first)
        return K
    import copy as _copy

    for cname, cls_ in (("Hypergraph", xgi.Hypergraph), ("DiHypergraph", xgi.DiHypergraph), ("SimplicialComplex", xgi.SimplicialComplex)):
        A((f"pickle({cname} with sparse ids)", lambda cls_=cls_: pickle.loads(pickle.dumps(sparse(cls_)))))
        A((f"deepcopy({cname} with sparse ids)", lambda cls_=cls_: _copy.deepcopy(sparse(cls_))))
        A((f"copy({cname} with sparse ids)", lambda cls_=cls_: sparse(cls_).copy()))
        A((f"{cname}({cname} with sparse ids)", lambda cls_=cls_: cls_(sparse(cls_))))
    A(("convert_labels_to_integers", lambda: xgi.convert_labels_to_integers(H0)))
    A(("cleanup(in_place=False)", lambda: H0.cleanup(in_place=False, connected=False)))
    A(("dual", lambda: H0.dual()))
    A(("subhypergraph.copy", lambda: xgi.subhypergraph(H0).copy()))
    A(("lshift", lambda: H0 << H0))
    A(("from_hypergraph_dict", lambda: xgi.from_hypergraph_dict(xgi.to_hypergraph_dict(xgi.convert_labels_to_integers(H0)),
                                                                 nodetype=int, edgetype=int)))
    A(("from_hif_dict", lambda: xgi.from_hif_dict(xgi.to_hif_dict(H0))))
    A(("SimplicialComplex(list)", lambda: xgi.SimplicialComplex(nonempty)))
    A(("SimplicialComplex(Hypergraph)", lambda: xgi.SimplicialComplex(H0)))
    A(("SimplicialComplex.copy", lambda: xgi.SimplicialComplex(nonempty).copy()))
    A(("from_max_simplices", lambda: xgi.from_max_simplices(xgi.SimplicialComplex(nonempty))))
    A(("from_simplex_dict", lambda: xgi.from_simplex_dict({k: m for k, m in enumerate(nonempty)})))
    A(("DiHypergraph(list)", lambda: xgi.DiHypergraph([(m[:1], m[1:]) for m in nonempty])))
    A(("DiHypergraph.copy", lambda: xgi.DiHypergraph([(m[:1], m[1:]) for m in nonempty]).copy()))
    A(("DiHypergraph(dict, id 0)", lambda: xgi.DiHypergraph({k: (m[:1], m[1:]) for k, m in enumerate(nonempty)})))
    A(("Hypergraph(DiHypergraph)", lambda: xgi.Hypergraph(xgi.DiHypergraph([(m[:1], m[1:]) for m in nonempty]))))
    if nonempty:
        A(("cut_to_order", lambda: xgi.cut_to_order(H0, 0)))
        A(("from_bipartite_edgelist", lambda: xgi.from_bipartite_edgelist(xgi.to_bipartite_edgelist(xgi.convert_labels_to_integers(H0)))))
        A(("from_bipartite_edgelist(directed)", lambda: xgi.from_bipartite_edgelist(
            [(n, k, "in" if i == 0 else "out") for k, m in enumerate(nonempty) for i, n in enumerate(m)])))
        A(("from_incidence_matrix", lambda: xgi.from_incidence_matrix(xgi.to_incidence_matrix(H0))))
        A(("to_hypergraph(ndarray)", lambda: xgi.to_hypergraph(xgi.to_incidence_matrix(H0, sparse=False))))
        A(("from_bipartite_graph", lambda: xgi.from_bipartite_graph(xgi.to_bipartite_graph(H0))))
        A(("from_bipartite_pandas_dataframe", lambda: xgi.from_bipartite_pandas_dataframe(
            xgi.to_bipartite_pandas_dataframe(xgi.convert_labels_to_integers(H0)), node_column="Node ID", edge_column="Edge ID")))
        A(("Hypergraph(dataframe)", lambda: xgi.Hypergraph(xgi.to_bipartite_pandas_dataframe(xgi.convert_labels_to_integers(H0)))))
        A(("complement", lambda: xgi.complement(H0) if len(j["nodes"]) <= 5 else H0.copy()))

    def rw(write, read, name, **kw):
        def f():
            p = os.path.join(tmpdir, name)
            write(xgi.convert_labels_to_integers(H0), p)
            return read(p, **kw)
        return f
    A(("read_edgelist", rw(xgi.write_edgelist, xgi.read_edgelist, "el", nodetype=int)))
    A(("read_hif", rw(xgi.write_hif, xgi.read_hif, "hif.json")))
    A(("read_json", rw(xgi.write_json, xgi.read_json, "h.json", nodetype=int, edgetype=int)))
    if nonempty:
        A(("read_bipartite_edgelist(edgetype=int)", rw(xgi.write_bipartite_edgelist, xgi.read_bipartite_edgelist, "bel",
                                                         nodetype=int, edgetype=int)))
        A(("read_incidence_matrix", rw(xgi.write_incidence_matrix, xgi.read_incidence_matrix, "im")))
    return S


def _bulk(items):
    H = xgi.Hypergraph()
    H.add_edges_from(items)
    return H


def _single0(members):
    H = xgi.Hypergraph()
    for k, m in enumerate(members):
        H.add_edge(m, idx=k)
    return H


def _a2e(members):
    H = xgi.Hypergraph()
    for k, m in enumerate(members):
        for n in m:
            H.add_node_to_edge(k, n)
    return H


def generator_sources(seed_):
    k1 = {i: 2 for i in range(5)}
    k2 = {i: 2 for i in range(4)}
    return [
        ("fast_random_hypergraph", lambda: xgi.fast_random_hypergraph(6, [0.4, 0.2], seed=seed_)),
        ("random_hypergraph", lambda: xgi.random_hypergraph(6, [0.4, 0.2], seed=seed_)),
        ("uniform_erdos_renyi_hypergraph", lambda: xgi.uniform_erdos_renyi_hypergraph(6, 3, 0.4, seed=seed_)),
        ("uniform_HSBM", lambda: xgi.uniform_HSBM(6, 2, np.array([[0.8, 0.2], [0.2, 0.8]]), [3, 3], seed=seed_)),
        ("uniform_HPPM", lambda: xgi.uniform_HPPM(6, 2, 2, 0.7, seed=seed_)),
        ("uniform_hypergraph_configuration_model", lambda: xgi.uniform_hypergraph_configuration_model({i: 2 for i in range(6)}, 3, seed=seed_)),
        ("chung_lu_hypergraph", lambda: xgi.chung_lu_hypergraph(k1, k2, seed=seed_)),
        ("dcsbm_hypergraph", lambda: xgi.dcsbm_hypergraph(k1, k2, {i: i % 2 for i in range(5)}, {i: i % 2 for i in range(4)},
                                                          np.array([[4, 1], [1, 4]]), seed=seed_)),
        ("ring_lattice", lambda: xgi.ring_lattice(6, 3, 2, 0)),
        ("watts_strogatz_hypergraph", lambda: xgi.watts_strogatz_hypergraph(6, 3, 2, 0, 0.5, seed=seed_)),
        ("star_clique", lambda: xgi.star_clique(3, 3, 2)),
        ("sunflower", lambda: xgi.sunflower(3, 1, 3)),
        ("complete_hypergraph", lambda: xgi.complete_hypergraph(4, max_order=2)),
        ("trivial_hypergraph", lambda: xgi.trivial_hypergraph(3)),
        ("random_simplicial_complex", lambda: xgi.random_simplicial_complex(6, [0.5, 0.3], seed=seed_)),
        ("flag_complex", lambda: xgi.flag_complex(nx.complete_graph(4), max_order=2)),
        ("random_flag_complex", lambda: xgi.random_flag_complex(6, 0.6, seed=seed_)),
        ("shuffle_hyperedges", lambda: xgi.shuffle_hyperedges(xgi.Hypergraph([[0, 1, 2], [2, 3, 4], [0, 4]]), 2, 0.9, seed=seed_)),
        ("node_swap", lambda: xgi.node_swap(xgi.Hypergraph([[0, 1, 2], [2, 3, 4], [0, 4]]), 0, 3)),
    ]


def special_id_sources():
    """explicit ids of unusual numeric kinds (and values where number ranges end): the counter must still end
    up beyond them, in every class"""
    specials = [("2**53+1", 2 ** 53 + 1), ("time stamp in ns", 1_700_000_000_000_000_001), ("np.uint8(255)", np.uint8(255)),
                ("np.int8(127)", np.int8(127)), ("np.uint16(65535)", np.uint16(65535)), ("1e16", 1e16), ("255.0", 255.0),
                ("np.float32(16777216)", np.float32(16777216.0)), ("2**31-1", 2 ** 31 - 1), ("2**63-1", 2 ** 63 - 1)]
    out = []
    for name, val in specials:
        def mk_h(val=val):
            H = xgi.Hypergraph()
            H.add_edge([1, 2])
            H.add_edge([2, 3], idx=val)
            return H

        def mk_hb(val=val):
            H = xgi.Hypergraph()
            H.add_edges_from([([1, 2], 0), ([2, 3], val)])
            return H

        def mk_d(val=val):
            H = xgi.DiHypergraph()
            H.add_edge(([1], [2]))
            H.add_edge(([2], [3]), idx=val)
            return H

        def mk_s(val=val):
            S = xgi.SimplicialComplex()
            S.add_simplex([1, 2])
            S.add_simplex([2, 3, 4], idx=val)
            return S
        out += [(f"Hypergraph.add_edge(idx={name})", mk_h), (f"Hypergraph.add_edges_from(id {name})", mk_hb),
                (f"DiHypergraph.add_edge(idx={name})", mk_d), (f"SimplicialComplex.add_simplex(idx={name})", mk_s)]
    return out


def follow_up(tag, how, make):
    """obtain the network, then add with automatic ids and with an explicit id that exists"""
    recs = []
    with warnings.catch_warnings():
        warnings.simplefilter("ignore")
        try:
            H = make()
        except Exception as ex:  # noqa: BLE001
            return [{"rid": f"{tag}.obtained", "what": how, "how": how, "kind": "obtained", "pre": nets.NULL, "post": nets.NULL,
                     "warn": 0, "anom": [f"raised.{hg.classify(ex)}"]}]
    if H is None:
        return [{"rid": f"{tag}.obtained", "what": how, "how": how, "kind": "obtained", "pre": nets.NULL, "post": nets.NULL,
                 "warn": 0, "anom": ["returned-None"]}]
    g = AnyGamma()
    j, anom = proj(H, g)
    recs.append({"rid": f"{tag}.obtained", "what": how, "how": how, "kind": "obtained", "pre": j, "post": j, "warn": 0, "anom": anom})
    directed = isinstance(H, xgi.DiHypergraph)
    simplicial = isinstance(H, xgi.SimplicialComplex)
    fresh = [(901, 902), (902, 903, 904), (905,)]
    for k, m in enumerate(fresh):
        pre, _ = proj(H, g)
        with warnings.catch_warnings(record=True):
            warnings.simplefilter("always")
            try:
                if directed:
                    H.add_edge((list(m[:1]), list(m[1:])))
                elif simplicial:
                    H.add_simplex(list(m))
                elif k == 2:
                    H.add_edges_from([list(m), [906, 907]])
                else:
                    H.add_edge(list(m))
                err = []
            except Exception as ex:  # noqa: BLE001
                err = [f"raised.{hg.classify(ex)}"]
        post, anom = proj(H, g)
        recs.append({"rid": f"{tag}.add{k}", "what": f"{how} + automatic add", "how": how, "kind": "add", "pre": pre, "post": post,
                     "warn": 0, "anom": sorted(set(anom + err))})
    ids = list(H.edges)
    if ids:
        pre, _ = proj(H, g)
        with warnings.catch_warnings(record=True) as w:
            warnings.simplefilter("always")
            try:
                if directed:
                    H.add_edge(([908], [909]), idx=ids[0])
                elif simplicial:
                    H.add_simplex([908, 909], idx=ids[0])
                else:
                    H.add_edge([908, 909], idx=ids[0])
                err = []
            except Exception as ex:  # noqa: BLE001
                err = [f"raised.{hg.classify(ex)}"]
        post, anom = proj(H, g)
        recs.append({"rid": f"{tag}.dup", "what": f"{how} + explicit id that exists", "how": how, "kind": "dup", "pre": pre,
                     "post": post, "warn": len(w), "anom": sorted(set(anom + err))})
    return recs


def _worker(args):
    states, base, seed_ = args
    out = []
    tmpdir = tempfile.mkdtemp(prefix="c04-", dir=common.scratch())
    for k, j in enumerate(states):
        rng = random.Random(seed_ * 2038074743 + base + k)
        g = Gamma(*nets.FAMS[(base + k) % 2])
        for si, (how, make) in enumerate(sources(j, g, tmpdir, rng)):
            out += follow_up(f"s{base + k}.{si}", how, make)
    if base == 0:
        for si, (how, make) in enumerate(generator_sources(seed_)):
            out += follow_up(f"gen.{si}", how, make)
        for si, (how, make) in enumerate(special_id_sources()):
            out += follow_up(f"ids.{si}", how, make)
    import shutil

    shutil.rmtree(tmpdir, ignore_errors=True)
    return out


def records(tier, seed_):
    shapes, mc = obscore.enumerate_shapes("MC_ShapesH", {"NN": 3, "ME": 3, "MinSize": 0} if tier == "quick"
                                          else {"NN": 4, "ME": 4, "MinSize": 0}, max_states=120 if tier == "quick" else 4000)
    shapes = [j for j in shapes if j["edges"]]
    jobs = common.NCPU
    recs = []
    with ProcessPoolExecutor(max_workers=jobs) as ex:
        for part in ex.map(_worker, [(shapes[i::jobs], i * 100003, seed_) for i in range(jobs) if shapes[i::jobs]]):
            recs += part
    return recs, mc


def run(tier, seed_):
    """C04 = class models + histories (checks.core_check) + provenance records"""
    from . import checks

    t = common.Timer()
    rc1 = checks.core_check("C04", tier, seed_)
    recs, mc = records(tier, seed_)
    bad = common.validate_records(recs, "TraceProv")
    log(f"[C04] provenance: {len(recs)} records over {len({r['how'] for r in recs})} ways of obtaining a network, "
        f"{len(bad)} with verdicts ({t():.0f}s)")
    byrid = {r["rid"]: r for r in recs}
    seen, nv = set(), 0
    for rid, cl in bad.items():
        key = (byrid[rid]["how"], byrid[rid]["kind"], tuple(cl))
        if key in seen:
            continue
        seen.add(key)
        nv += 1
        path = common.write_replay("C04", {"property": "C04", "clauses": cl, "record": byrid[rid],
                                           "trace_module": "TraceProv", "repo_head": common.repo_head()})
        print(f"VIOLATION property=C04 replay={path}")
        log(f"  {byrid[rid]['what']} ({byrid[rid]['kind']}) {cl}")
    st = json.loads(json.dumps(next((r for r in recs if r["rid"] not in bad and r["kind"] == "obtained"
                                     and any(0 <= e < 100 for e in r["post"]["edges"])), None)))
    if st is None:
        if not nv:
            raise common.MachineryError("C04 provenance self-test: no accepted record to corrupt")
    else:
        st["rid"] = "selftest"
        st["post"]["uid"] = 0
    if st is not None and not nv and "C04:UidFresh" not in common.validate_records([st], "TraceProv").get("selftest", []):
        raise common.MachineryError("C04 provenance self-test did not fire")
    ev = json.load(open(f"{common.EVID}/C04.json"))
    cov = ev["coverage"]
    cov["provenance"] = {"records": len(recs), "ways_of_obtaining_a_network": sorted({r["how"] for r in recs}),
                         "tlc_shapes": mc, "violations": nv,
                         "selftest": "an obtained network whose counter is 0 although it holds integer ids is rejected"}
    cov["evaluations"] += len(recs)
    cov["traces_validated_against_impl"] += len(recs)
    ev["violations"] += nv
    ev["wall_s"] = round(t(), 2)
    json.dump(ev, open(f"{common.EVID}/C04.json", "w"), indent=1)
    return 1 if (rc1 or nv) else 0
