"""C14: graph-reducible algorithms agree with independent definitions (TLA+, evaluated by TLC)."""
import json
import math
import random
import warnings
from concurrent.futures import ProcessPoolExecutor

import xgi

from . import common, hg, nets, obscore
from .c12 import frac
from .common import log
from .gamma import Gamma


def observe(H, g):
    iN, iE = g.inv_node, g.inv_edge
    o, errs = {}, []
    rng = random.Random(H.num_nodes * 7919 + H.num_edges)

    def get(name, f, default):
        with warnings.catch_warnings():
            warnings.simplefilter("ignore")
            try:
                return f()
            except Exception as ex:  # noqa: BLE001
                errs.append(f"{name}.{hg.classify(ex)}")
                return default

    nodes = list(H.nodes)
    o["comps"] = get("connected_components", lambda: [sorted(iN(n) for n in c) for c in xgi.connected_components(H)], [])
    o["ncomp"] = get("number_connected_components", lambda: int(xgi.number_connected_components(H)), -1)
    o["isconn"] = get("is_connected", lambda: bool(xgi.is_connected(H)), False) if nodes else False
    o["lcc"] = get("largest_connected_component", lambda: sorted(iN(n) for n in xgi.largest_connected_component(H)), []) if nodes else []
    o["ncc"] = [[iN(n), get("node_connected_component", lambda n=n: sorted(iN(x) for x in xgi.node_connected_component(H, n)), [])]
                for n in nodes]
    def rows(pairs):
        return [[iN(s), [[iN(t), (-1 if math.isinf(d) else int(d))] for t, d in dd.items()]] for s, dd in pairs]
    # the documented use keeps the rows: dict(xgi.shortest_path_length(H)); reading each row while iterating
    # must give the same table
    o["dist"] = get("shortest_path_length", lambda: rows(list(xgi.shortest_path_length(H))), [])
    lazy = get("shortest_path_length", lambda: rows(xgi.shortest_path_length(H)), [])
    if lazy != o["dist"]:
        errs.append("shortest_path_length.rows-read-while-iterating-differ-from-rows-kept")
    o["clust"] = get("clustering_coefficient", lambda: [[iN(n), frac(v)] for n, v in xgi.clustering_coefficient(H).items()], [])

    def graph():
        G = xgi.to_graph(H)
        return [iN(n) for n in G.nodes], [[iN(a), iN(b)] for a, b in G.edges]
    o["gnodes"], o["glinks"] = get("to_graph", graph, ([], [])) if nodes else ([iN(n) for n in nodes], [])
    line = []
    for s in (0, 1, 2, 3):
        for w in (None, "absolute", "normalized"):
            if s == 0 and w == "normalized" and any(len(m) == 0 for m in H._edge.values()):
                continue  # 0 / min(0, .) is not defined

            def lg(s=s, w=w):
                G = xgi.to_line_graph(H, s=s, weights=w)
                return {"s": s, "w": w or "none", "nodes": [iE(e) for e in G.nodes],
                        "links": [[iE(a), iE(b), frac(d.get("weight", 1))] for a, b, d in G.edges(data=True)]}
            r = get("to_line_graph", lg, None)
            if r:
                line.append(r)
    o["line"] = line

    def bip():
        G, nd, ed = xgi.to_bipartite_graph(H, index=True)
        links = []
        for a, b in G.edges:
            if a in ed:
                a, b = b, a
            links.append([iN(nd[a]), iE(ed[b])])
        return G.number_of_nodes(), links
    o["bipn"], o["biplinks"] = get("to_bipartite_graph", bip, (-1, []))

    # the directed variant: node -> edge for tail members, edge -> node for head members (a node may be both)
    def dbip():
        D = xgi.DiHypergraph()
        D.add_nodes_from(list(H.nodes))
        tails, heads = [], []
        for k, e in enumerate(H.edges):
            mm = list(H._edge[e])
            rng.shuffle(mm)
            c = rng.randrange(len(mm) + 1)
            t, h = mm[:c], mm[c:] + (mm[:1] if rng.random() < 0.4 else [])
            D.add_edge((t, h), idx=f"d{k}")
            tails.append(sorted(iN(x) for x in t))
            heads.append(sorted(set(iN(x) for x in h)))
        G, nd, ed = xgi.to_bipartite_graph(D, index=True)
        arcs = []
        for a, b in G.edges:
            if a in nd:
                arcs.append(["t", iN(nd[a]), int(ed[b][1:]) + 1])
            else:
                arcs.append(["h", iN(nd[b]), int(ed[a][1:]) + 1])
        return [tails, heads, arcs, [G.number_of_nodes(), D.num_nodes + D.num_edges]]
    o["dbip"] = get("to_bipartite_graph(DiHypergraph)", dbip, [[], [], [["x", -1, -1]], [0, 0]])
    dag = []
    for kind in ("all", "immediate", "empirical"):
        def dg(kind=kind):
            D = xgi.to_encapsulation_dag(H, subset_types=kind)
            return {"immediate": kind == "immediate", "kind": kind, "nodes": [iE(e) for e in D.nodes],
                    "arcs": [[iE(a), iE(b)] for a, b in D.edges]}
        r = get("to_encapsulation_dag", dg, None)
        if r:
            dag.append(r)
    o["dag"] = dag
    return o, errs


def _worker(args):
    states, base, seed_ = args
    out = []
    for k, j in enumerate(states):
        rng = random.Random(seed_ * 67867967 + base + k)
        fams = nets.FAMS + [("npint", "npint"), ("descset", "int"), ("collide", "int"), ("floatnode", "int"), ("mixed", "int")]
        g = Gamma(*fams[(base + k) % len(fams)])
        vname, emap = rng.choice(obscore.edge_id_variants(j, rng))
        H = obscore.realise(j, g, rng, shuffle=True, edge_id_map=emap)
        st, anom = hg.proj(H, g)
        o, errs = observe(H, g)
        out.append({"rid": f"s{base + k}", "what": f"shape {base + k} ({g.name}/{vname})", "st": st, "obs": o,
                    "anom": sorted(set(anom + errs))})
        if k % 4 == 0 and obscore.rewire_in_place(H, rng):  # same object, edited, evaluated again
            st, anom = hg.proj(H, g)
            o, errs = observe(H, g)
            out.append({"rid": f"s{base + k}.rewired", "what": f"shape {base + k} rewired in place ({g.name}/{vname})", "st": st,
                        "obs": o, "anom": sorted(set(anom + errs))})
    return out


BUD = {"quick": {"shapes": {"NN": 4, "ME": 3, "MinSize": 0}, "max_shapes": 1200},
       "thorough": {"shapes": {"NN": 5, "ME": 4, "MinSize": 0}, "max_shapes": 30000}}


def run(tier, seed_):
    t = common.Timer()
    b = BUD[tier]
    shapes, mc = obscore.enumerate_shapes("MC_ShapesH", b["shapes"], max_states=b["max_shapes"])
    jobs = common.NCPU
    recs = []
    with ProcessPoolExecutor(max_workers=jobs) as ex:
        for part in ex.map(_worker, [(shapes[i::jobs], i * 100003, seed_) for i in range(jobs) if shapes[i::jobs]]):
            recs += part
    # larger instances that the bounded enumeration cannot contain: long chordless cycles, one large
    # hyperedge (many triangles per node), random hypergraphs on 8 nodes
    rngx = random.Random(seed_ + 99)
    extra = [[[k, (k + 1) % 6] for k in range(6)], [[k, (k + 1) % 7] for k in range(7)] + [[0, 8]],
             [list(range(14))] + [[k, 14 + k] for k in range(3)] + [[20]],
             [[0, 1, 2], [2, 3], [3, 4], [4, 5, 6], [6, 0], [7]],
             # several components, the largest not visited last
             [[0, 1, 2], [3, 4], [5, 6]], [[0, 1], [1, 2], [2, 3], [4, 5, 6], [7], [8, 9]], [[0, 1, 2, 3], [4, 5], [6, 7], [8]],
             [[4, 5], [0, 1, 2], [6, 7]]]
    for _ in range(6 if tier == "quick" else 200):
        extra.append([sorted(rngx.sample(range(8), rngx.choice([1, 2, 2, 3, 4]))) for _ in range(rngx.randrange(3, 9))])
    for k, members in enumerate(extra):
        g = Gamma(*(nets.FAMS + [("mixed", "int")])[k % 4])
        H = xgi.Hypergraph()
        H.add_nodes_from([g.node(n) for n in sorted({n for m in members for n in m} | {21})])
        for m in members:
            H.add_edge([g.node(n) for n in m])
        st, anom = hg.proj(H, g)
        o, errs = observe(H, g)
        recs.append({"rid": f"big{k}", "what": f"larger instance {k} ({g.name}/identity)", "st": st, "obs": o,
                     "anom": sorted(set(anom + errs))})
    log(f"[C14] observations on {len(recs)} realised TLC-enumerated states ({t():.0f}s)")

    def selftest(records, bad):
        r0 = next(r for r in records if r["rid"] not in bad and len(r["obs"]["comps"]) >= 2)
        m = json.loads(json.dumps(r0))
        m["rid"] = "selftest"
        m["obs"]["comps"] = [sorted(sum(m["obs"]["comps"], []))]  # two components merged
        v = common.validate_records([m], "TraceC14")
        if "C14:components" not in v.get("selftest", []):
            raise common.MachineryError(f"C14 self-test did not fire: {v}")
        return {"corrupted_records": 1, "rejected": 1}

    samples = [{"rid": r["rid"], "what": r["what"], "nodes": r["st"]["nodes"], "members": r["st"]["e2n"],
                "components": r["obs"]["comps"], "clustering": r["obs"]["clust"]} for r in recs[:: max(1, len(recs) // 5)]][:5]
    return obscore.report(
        "C14", tier, seed_, t, records=recs, trace_module="TraceC14", mc_stats=mc,
        rule="inputs = every TLC-enumerated hypergraph (disconnected, isolated nodes, singletons, multi-edges, nested "
             "and empty edges) realised under 3 label families, edge-id relabellings and shuffled insertion orders; "
             "s in 1..3, three weight modes, two subset types; distinct = (#nodes, multiset of edge sizes, label "
             "family / id variant)",
        samples=samples, selftest=selftest,
        class_of=lambda r: (len(r["st"]["nodes"]), tuple(sorted(len(m) for m in r["st"]["e2n"])), r["what"].split("(")[-1]),
        assumptions=["the independent implementation is the TLA+ definition evaluated by TLC, not a graph library",
                     "to_encapsulation_dag(subset_types='empirical') is not specified here"])
