"""X02 (growth beyond the listed properties): the bipartite drawings - draw_bipartite on hypergraphs
(node markers, edge markers, one line per incidence: draw_undirected_dyads) and on directed hypergraphs
(one arrow node -> edge marker per tail member, edge marker -> node per head member: draw_directed_dyads)
with max_order, against spec/Scene.tla (BipScene / DiBipScene).

Not part of MANIFEST.json (the property list is fixed); run with ./check X02."""
import json
import random
import signal
import warnings
from collections import Counter
from concurrent.futures import ProcessPoolExecutor

import numpy as np
import xgi

from . import common, hg, nets, obscore
from .common import log
from .gamma import Gamma


def rec(rid, fn, **kw):
    r = {"rid": rid, "what": fn, "fn": fn, "kind": "bip", "res": "ok", "mo": -1, "nodes": [], "ids": [], "mem": [], "tails": [],
         "heads": [], "markers": [], "emarkers": [], "blines": [], "arrows": [], "anom": []}
    r.update(kw)
    return r


class _Timeout(Exception):
    pass


def _alarm(signum, frame):
    raise _Timeout()


def observe(tag, j, g, rng, plt):
    from matplotlib.patches import FancyArrowPatch

    out = []
    H = obscore.realise(j, g, rng, shuffle=True)
    st, anom = hg.proj(H, g)
    iN, iE = g.inv_node, g.inv_edge
    # a directed version of the same incidence structure: every member goes to the tail, the head or both
    D = xgi.DiHypergraph()
    D.add_nodes_from(list(H.nodes))
    dmem = {}
    for e in H.edges:
        tail, head = [], []
        for n in H._edge[e]:
            c = rng.choice(["t", "h", "th"])
            if "t" in c:
                tail.append(n)
            if "h" in c:
                head.append(n)
        D.add_edge((tail, head), idx=e)
        dmem[e] = (tail, head)

    def positions(net):
        c = len(net.nodes) // 2
        npos = {n: np.array([k - c, (k - c) ** 2], dtype=float) for k, n in enumerate(net.nodes)}
        epos = {e: np.array([100 + k, 7 * k], dtype=float) for k, e in enumerate(net.edges)}
        ni, ei = list(npos.items()), list(epos.items())
        rng.shuffle(ni)
        rng.shuffle(ei)
        return dict(ni), dict(ei)

    def run_one(rid, fn, net, mo, directed, style):
        npos, epos = positions(net)
        backn = {(float(p[0]), float(p[1])): iN(n) for n, p in npos.items()}
        backe = {(float(p[0]), float(p[1])): iE(e) for e, p in epos.items()}

        def at(tbl, pt):
            return tbl.get((float(round(float(pt[0]), 6)), float(round(float(pt[1]), 6))), -3)

        common_ = dict(mo=-1 if mo is None else mo, nodes=st["nodes"], ids=st["edges"], anom=sorted(set(anom)))
        if directed:
            common_.update(tails=[[iN(n) for n in dmem[g.edge(e)][0]] for e in st["edges"]],
                           heads=[[iN(n) for n in dmem[g.edge(e)][1]] for e in st["edges"]], kind="dibip")
        else:
            common_.update(mem=st["e2n"])
        signal.alarm(30)
        try:
            with warnings.catch_warnings():
                warnings.simplefilter("ignore")
                ax, cols = xgi.draw_bipartite(net, pos=(npos, epos), max_order=mo, **style)
                markers = [at(backn, p) for p in np.asarray(cols[0].get_offsets(), dtype=float)]
                emarkers = [at(backe, p) for p in np.asarray(cols[1].get_offsets(), dtype=float)]
                if directed:
                    arrows = []
                    for p in ax.patches:
                        if isinstance(p, FancyArrowPatch):
                            a, b = p._posA_posB
                            if at(backn, a) != -3:
                                arrows.append([0, at(backn, a), at(backe, b)])  # node -> edge marker (tail member)
                            else:
                                arrows.append([1, at(backn, b), at(backe, a)])  # edge marker -> node (head member)
                    out.append(rec(rid, fn, markers=markers, emarkers=emarkers, arrows=arrows, **common_))
                else:
                    lines = [[at(backn, s[0]), at(backe, s[-1])] for s in cols[2].get_segments()]
                    out.append(rec(rid, fn, markers=markers, emarkers=emarkers, blines=lines, **common_))
        except Exception as ex:  # noqa: BLE001
            out.append(rec(rid, fn, res="timeout" if isinstance(ex, _Timeout) else hg.classify(ex), **common_))
        finally:
            signal.alarm(0)
            plt.close("all")

    styles = [dict(), dict(node_fc="red", edge_marker_fc="blue", dyad_lw=2), dict(node_size=H.nodes.degree, dyad_color="green")]
    has_member = any(len(m) for m in st["e2n"])
    if not has_member:
        return out  # nothing to draw between nodes and edges: outside the documented use
    for k, mo in enumerate((None, 0, 1, 2)):
        run_one(f"{tag}.bip.{k}", "draw_bipartite", H, mo, False, styles[k % len(styles)])
        run_one(f"{tag}.dibip.{k}", "draw_bipartite(directed)", D, mo, True, styles[(k + 1) % 2])
    return out


def _worker(args):
    import matplotlib

    matplotlib.use("Agg")
    import matplotlib.pyplot as plt

    states, base_, seed_ = args
    signal.signal(signal.SIGALRM, _alarm)
    out = []
    fams = nets.FAMS + [("npint", "npint"), ("mixed", "int"), ("tuple", "int")]
    for k, j in enumerate(states):
        rng = random.Random(seed_ * 15485863 + base_ + k)
        out += observe(f"s{base_ + k}", j, Gamma(*fams[(base_ + k) % len(fams)]), rng, plt)
    return out


BUD = {"quick": {"shapes": {"NN": 4, "ME": 3, "MinSize": 0}, "max_shapes": 160},
       "thorough": {"shapes": {"NN": 5, "ME": 4, "MinSize": 0}, "max_shapes": 3000}}


def run(tier, seed_):
    t = common.Timer()
    b = BUD[tier]
    shapes, mc = obscore.enumerate_shapes("MC_ShapesH", b["shapes"], max_states=None)
    shapes = [j for j in shapes if j["nodes"]]
    rng = random.Random(seed_ + 5)
    if len(shapes) > b["max_shapes"]:
        shapes = rng.sample(shapes, b["max_shapes"])
    jobs = common.NCPU
    recs = []
    with ProcessPoolExecutor(max_workers=jobs) as ex:
        for part in ex.map(_worker, [(shapes[i::jobs], i * 100003, seed_) for i in range(jobs) if shapes[i::jobs]]):
            recs += part
    log(f"[X02] {len(recs)} bipartite drawings (undirected and directed) on {len(shapes)} TLC-enumerated shapes ({t():.0f}s)")
    return growth_report("X02", recs, "TraceBip", t,
                         selftest=lambda r: r["kind"] == "bip" and len(r["blines"]) >= 2,
                         corrupt=lambda m: m.update(blines=m["blines"][:-1]), clause="X02:draw_bipartite.lines")


def growth_report(name, recs, module, t, *, selftest, corrupt, clause):
    """validate, known findings, VIOLATION lines, binding self-test (shared by the growth checks)"""
    bad = common.validate_records(recs, module)
    log(f"[{name}] trace validation: {len(recs)} records, {len(bad)} with verdicts ({t():.0f}s)")
    byrid = {r["rid"]: r for r in recs}
    known = [k for k in common.load_known() if k["property"] == name and k.get("status") == "open"]
    hits = Counter()
    for rid, cl in list(bad.items()):
        kf = next((k for k in known if all(c == k["clause"] for c in cl)), None)
        if kf:
            hits[kf["id"]] += 1
            del bad[rid]
    for k in known:
        if hits[k["id"]]:
            print(f"KNOWN-FINDING: property={name} {k['id']} {k['what']} (hit {hits[k['id']]}x)")
    seen = set()
    for rid, cl in bad.items():
        key = tuple(cl)
        if key in seen:
            continue
        seen.add(key)
        path = common.write_replay(name, {"property": name, "clauses": cl, "record": byrid[rid], "trace_module": module,
                                          "repo_head": common.repo_head()})
        print(f"VIOLATION property={name} replay={path}")
        log(f"  {byrid[rid]['what']} {json.dumps({k: v for k, v in byrid[rid].items() if k not in ('rid', 'what')})[:400]} {cl}")
    good = next((r for r in recs if r["rid"] not in bad and r["res"] == "ok" and selftest(r)), None)
    if good is None:
        if not bad:
            raise common.MachineryError(f"{name} self-test: no accepted record")
    elif not bad:
        m = json.loads(json.dumps(good))
        m["rid"] = "selftest"
        corrupt(m)
        if clause not in common.validate_records([m], module).get("selftest", []):
            raise common.MachineryError(f"{name} self-test did not fire")
    log(f"[{name}] per function: {dict(Counter(r['fn'] for r in recs))}")
    return 1 if bad else 0
