"""X01 (growth beyond the listed properties): helper functions of xgi.utils and the
parametrised global measures of xgi.algorithms.properties against spec/Utils.tla.

Not part of MANIFEST.json (the property list is fixed); run with ./check X01."""
import itertools
import json
import random
import warnings

import networkx as nx
import xgi
from xgi.utils import tensor as _tensor
from xgi.utils.utilities import min_where as _min_where

from . import common, hg, obscore
from .c12 import frac
from .common import log
from .gamma import Gamma

NONE = -9


@xgi.nodestat_func
def x01_twice_degree_plus_one(net, bunch):
    return {n: 2 * len(net._node[n]) + 1 for n in bunch}


@xgi.edgestat_func
def x01_ten_times_size(net, bunch):
    return {e: 10 * len(net._edge[e]) for e in bunch}


def _do(f):
    with warnings.catch_warnings():
        warnings.simplefilter("ignore")
        try:
            return f(), "ok"
        except Exception as ex:  # noqa: BLE001
            return None, hg.classify(ex)


def _opt(x):
    return None if x == NONE else x


def pure_records(rng, tier):
    out = []

    def add(fn, res, o, **kw):
        out.append({"rid": f"p{len(out)}", "what": f"{fn} {json.dumps(kw)[:120]}", "fn": fn, "res": res, "out": o if o is not None else [],
                    "anom": [], **kw})

    # powerset: every flag combination x max_size on sequences of 0..4 distinct elements (any order)
    for n in range(0, 5):
        base = list(range(n))
        seqs = [base, base[::-1]] + ([rng.sample(base, n)] if n > 2 else [])
        for s in seqs:
            for b in itertools.product([False, True], repeat=3):
                for k in (NONE, -1, 0, 1, 2, 3, 6):
                    r, res = _do(lambda: [list(x) for x in xgi.powerset(s, include_empty=b[0], include_full=b[1],
                                                                        include_singletons=b[2], max_size=_opt(k))])
                    add("powerset", res, r, s=s, b=list(b), k=k)
    # subfaces: lists of 1..3 edges over 5 elements
    for _ in range(60 if tier == "quick" else 600):
        edges = [rng.sample(range(5), rng.choice([1, 2, 2, 3, 3, 4])) for _ in range(rng.randrange(1, 4))]
        for k in (NONE, -1, 0, 1, 2, 3, 4):
            r, res = _do(lambda: [list(x) for x in xgi.subfaces([tuple(e) for e in edges], order=_opt(k))])
            add("subfaces", res, r, edges=edges, k=k)
    # binomial_sequence / banerjee_coeff: every pair in a small box
    for k in range(-1, 6):
        for n in range(-1, 6):
            r, res = _do(lambda: sorted([int(c) for c in s] for s in xgi.binomial_sequence(k, n)))
            add("binomial_sequence", res, r, k=k, n=n)
    for k in range(0, 5):
        for n in range(0, 6):
            r, res = _do(lambda: [int(_tensor.banerjee_coeff(k, n))])
            add("banerjee_coeff", res, r, k=k, n=n)
    # min_where: -1 codes infinity
    import numpy as np

    for _ in range(40 if tier == "quick" else 400):
        n = rng.randrange(0, 5)
        vals = [rng.choice([-1, 0, 1, 2, 3, 5]) for _ in range(n)]
        where = [rng.random() < 0.6 for _ in range(n)]
        r, res = _do(lambda: _min_where({i: (np.inf if v < 0 else v) for i, v in enumerate(vals)},
                                                 {i: w for i, w in enumerate(where)}))
        add("min_where", res, None if r is None else [-1 if r == np.inf else int(r)], s=vals, b=where)
    # find_triangles: every graph on 4 nodes, random graphs on 5 and 6
    graphs = []
    pairs4 = list(itertools.combinations(range(4), 2))
    for mask in range(1 << len(pairs4)):
        graphs.append((list(range(4)), [list(p) for i, p in enumerate(pairs4) if mask >> i & 1]))
    for _ in range(30 if tier == "quick" else 300):
        n = rng.choice([5, 6])
        graphs.append((list(range(n)), [list(p) for p in itertools.combinations(range(n), 2) if rng.random() < 0.55]))
    for V, L in graphs:
        G = nx.Graph()
        order = V[:]
        rng.shuffle(order)
        G.add_nodes_from(order)
        links = [tuple(rng.sample(p, 2)) for p in L]
        rng.shuffle(links)
        G.add_edges_from(links)
        r, res = _do(lambda: [sorted(t) for t in xgi.find_triangles(G)])
        add("find_triangles", res, r, s=V, edges=L)
    return out


def shape_records(tag, j, g, rng):
    out = []
    H = obscore.realise(j, g, rng, shuffle=True)
    st, anom = hg.proj(H, g)
    iN, iE = g.inv_node, g.inv_edge
    ids, mem = st["edges"], st["e2n"]

    def add(fn, res, o, **kw):
        out.append({"rid": f"{tag}.{fn}.{len(out)}", "what": f"{fn} {json.dumps(kw)[:100]} ({g.name})", "fn": fn, "res": res,
                    "out": o if o is not None else [], "anom": sorted(set(anom)), **kw})

    ed = {e: list(H._edge[e]) for e in H.edges}
    r, res = _do(lambda: sorted([iN(n), sorted(iE(e) for e in es)] for n, es in xgi.dual_dict(ed).items()))
    add("dual_dict", res, r, ids=ids, mem=mem)
    if g.name.startswith("ints"):  # pairwise_incidence sorts the members: orderable labels
        mx = max([len(m) for m in mem] + [0])
        r, res = _do(lambda: sorted([[iN(a), iN(b)], sorted(iE(e) for e in es)]
                                    for (a, b), es in _tensor.pairwise_incidence(ed, mx).items()))
        add("pairwise_incidence", res, r, ids=ids, mem=mem)
        T = xgi.Trie()
        T.build_trie([list(m) for m in ed.values()])
        qs = [rng.sample(range(5), rng.randrange(0, 4)) for _ in range(6)] + [list(m) for m in mem[:3]] + [m[:-1] for m in mem[:3] if m]
        r, res = _do(lambda: [[q, bool(T.search([g.node(x) for x in rng.sample(q, len(q))]))] for q in qs])
        add("trie", res, r, mem=mem)
    # views restricted to bunches and their set algebra (bunches given in any order, with repetitions)
    for k, (view, ids_, inv, lab) in enumerate(((H.nodes, st["nodes"], iN, g.node), (H.edges, st["edges"], iE, g.edge))):
        for _ in range(3):
            A = [x for x in ids_ if rng.random() < 0.6]
            B = [x for x in ids_ if rng.random() < 0.5]
            if rng.random() < 0.15:
                B = B + [77 if k == 0 else 55]
            rng.shuffle(A)
            rng.shuffle(B)

            def f():
                va, vb = view(lab(x) for x in A + A[:1]), view([lab(x) for x in B])
                return [[inv(x) for x in va & vb], [inv(x) for x in va | vb], [inv(x) for x in va - vb], [inv(x) for x in va ^ vb],
                        [inv(x) for x in va], [bool(va.isdisjoint(vb))], [len(va)]]
            r, res = _do(f)
            add("view_algebra", res, r, st=st, k=k, s=A, ids=B)
    # tensor times same vector (ttsv1 / ttsv2) against the blow-up definition of the adjacency tensor
    if mem and all(len(m) >= 1 for m in mem) and max(len(m) for m in mem) >= 2:
        import contextlib
        import io

        import numpy as np

        pos = {n: k for k, n in enumerate(st["nodes"])}
        pm = [[pos[x] for x in m] for m in mem]
        rk, nn = max(len(m) for m in pm), len(pos)
        for _ in range(2):
            a = [rng.choice([1, 1, 2, 3]) for _ in range(nn)]
            if rng.random() < 0.5:  # members in another order: the result must not depend on it
                pm = [rng.sample(m, len(m)) for m in pm]
            edd = {k: list(m) for k, m in enumerate(pm)}
            ndd = {i: [k for k, m in edd.items() if i in m] for i in range(nn)}
            av = np.array(a, dtype=float)
            with contextlib.redirect_stdout(io.StringIO()):
                r, res = _do(lambda: [frac(x) for x in _tensor.ttsv1(ndd, edd, rk, av)])
                add("ttsv1", res, r, mem=pm, n=nn, k=rk, s=a)
                r, res = _do(lambda: [[frac(x) for x in row] for row in
                                      _tensor.ttsv2(_tensor.pairwise_incidence(edd, rk), edd, rk, av, nn).toarray()])
                add("ttsv2", res, r, mem=pm, n=nn, k=rk, s=a)
    # the network object as a container, and user-defined statistics
    def cont():
        probe = list(st["nodes"][:2]) + [77]
        try:
            H["never_set"]
            missing = ["ok"]
        except xgi.exception.XGIError:
            missing = ["liberr"]
        return [[len(H), H.num_nodes, H.num_edges], [iN(n) for n in H], [[x, g.node(x) in H] for x in probe], missing]
    r, res = _do(cont)
    add("container", res, r, st=st)
    kk = rng.choice([1, 3, 5])

    def custom():
        s_ = H.nodes.x01_twice_degree_plus_one
        return [[[iN(n), int(v)] for n, v in s_.asdict().items()], [int(v) for v in s_.aslist()],
                [iN(n) for n in H.nodes.filterby("x01_twice_degree_plus_one", kk, "geq")],
                [int(v) for v in H.edges.x01_ten_times_size.aslist()]]
    r, res = _do(custom)
    add("custom_stat", res, r, st=st, k=kk)
    # numeric summaries of the degree / edge-size statistics
    for k, stat in enumerate((H.nodes.degree, H.edges.size)):
        def f(stat=stat):
            u, c = stat.unique(return_counts=True)
            sd = float(stat.std())
            return [frac(stat.median()), [int(stat.mode())], frac(stat.var()), frac(stat.moment(2)), frac(stat.moment(3)),
                    frac(stat.moment(2, center=True)), frac(stat.moment(3, center=True)), [int(x) for x in u], [int(x) for x in c],
                    frac(sd * sd)]
        if len(stat):
            r, res = _do(f)
            add("stat_summaries", res, r, st=st, k=k)
    # histograms of the degree / edge-size statistics (linear binning; dyadic bin numbers and integer
    # edges keep the float bin edges exact)
    for k, stat in enumerate((H.nodes.degree, H.edges.size)):
        vals = [int(v) for v in stat.aslist()]
        if not vals:
            continue
        lo_, hi_ = min(vals), max(vals)
        for bins in (1, 2, 4, 8, [lo_, hi_ + 1], [lo_ - 1, lo_, hi_ + 1, hi_ + 3], list(range(lo_, hi_ + 2))):
            for dens in (False, True):
                if dens and (lo_ == hi_ and isinstance(bins, int)):
                    continue  # zero-width bin: the density is not defined
                def f(stat=stat, bins=bins, dens=dens):
                    df = stat.ashist(bins=bins if isinstance(bins, int) else list(bins), bin_edges=True, density=dens)
                    return [[frac(x) for x in df["bin_center"]], [frac(x) for x in df["value"]], [frac(x) for x in df["bin_lo"]],
                            [frac(x) for x in df["bin_hi"]], [df.attrs["ylabel"]]]
                r, res = _do(f)
                add("ashist", res, r, s=vals, k=bins if isinstance(bins, int) else NONE, ids=bins if not isinstance(bins, int) else [],
                    b=[dens])
    # parametrised global measures
    for fn in ("density", "incidence_density"):
        for k in (NONE, 0, 1, 2, 3, 4):
            for n in (NONE, 0, 1, 2, 4):
                for ig in (False, True):
                    # orders below 0 (empty edges) are outside the documented formulas
                    if any(len(m) == 0 for m in mem):
                        continue
                    r, res = _do(lambda: frac(getattr(xgi, fn)(H, order=_opt(k), max_order=_opt(n), ignore_singletons=ig)))
                    add(fn, res, r, st=st, k=k, n=n, b=[ig])
    if st["nodes"]:
        r, res = _do(lambda: [list(map(int, x)) for x in xgi.degree_histogram(H)])
        add("degree_histogram", res, r, st=st)
        for k in (NONE, 0, 1, 2):
            r, res = _do(lambda: [int(x) for x in xgi.degree_counts(H, order=_opt(k))])
            add("degree_counts", res, r, st=st, k=k)
        for k in (-1, 0, 1, 2, 3, 4):
            r, res = _do(lambda: [bool(xgi.is_possible_order(H, k))])
            add("is_possible_order", res, r, st=st, k=k)
        for n in st["nodes"][:3]:
            for inc in (False, True):
                r, res = _do(lambda: [[iE(e), sorted(iN(x) for x in m)] for e, m in
                                      zip(H.nodes.memberships(g.node(n)), xgi.edge_neighborhood(H, g.node(n), include_self=inc))])
                add("edge_neighborhood", res, r, st=st, n=n, b=[inc])
    return out


BUD = {"quick": {"shapes": {"NN": 4, "ME": 3, "MinSize": 0}, "max_shapes": 200},
       "thorough": {"shapes": {"NN": 4, "ME": 4, "MinSize": 0}, "max_shapes": 3000}}


def run(tier, seed_):
    t = common.Timer()
    b = BUD[tier]
    rng = random.Random(seed_ + 17)
    shapes, mc = obscore.enumerate_shapes("MC_ShapesH", b["shapes"], max_states=b["max_shapes"])
    recs = pure_records(rng, tier)
    fams = [("ints", "int"), ("str", "int"), ("ints", "int"), ("shift", "int")]
    for k, j in enumerate(shapes):
        recs += shape_records(f"s{k}", j, Gamma(*fams[k % len(fams)]), rng)
    log(f"[X01] {len(recs)} calls of helper functions / parametrised measures on {len(shapes)} TLC-enumerated shapes ({t():.0f}s)")
    bad = common.validate_records(recs, "TraceUtils")
    log(f"[X01] trace validation: {len(recs)} records, {len(bad)} with verdicts ({t():.0f}s)")
    byrid = {r["rid"]: r for r in recs}
    seen = set()
    known = [k for k in common.load_known() if k["property"] == "X01" and k.get("status") == "open"]
    from collections import Counter

    hits = Counter()
    for rid, cl in list(bad.items()):
        kf = next((k for k in known if all(c == k["clause"] for c in cl)), None)
        if kf:
            hits[kf["id"]] += 1
            del bad[rid]
    for k in known:
        if hits[k["id"]]:
            print(f"KNOWN-FINDING: property=X01 {k['id']} {k['what']} (hit {hits[k['id']]}x)")
    for rid, cl in bad.items():
        key = tuple(cl)
        if key in seen:
            continue
        seen.add(key)
        path = common.write_replay("X01", {"property": "X01", "clauses": cl, "record": byrid[rid], "trace_module": "TraceUtils",
                                           "repo_head": common.repo_head()})
        print(f"VIOLATION property=X01 replay={path}")
        log(f"  {byrid[rid]['what']} res={byrid[rid]['res']} out={json.dumps(byrid[rid]['out'])[:200]} {cl}")
    # binding self-test: one element dropped from an accepted powerset
    good = next((r for r in recs if r["rid"] not in bad and r["fn"] == "powerset" and len(r["out"]) > 2), None)
    if good is None:
        if not bad:
            raise common.MachineryError("X01 self-test: no accepted record")
    elif not bad:
        m = json.loads(json.dumps(good))
        m["rid"] = "selftest"
        m["out"] = m["out"][:-1]
        if "X01:powerset" not in common.validate_records([m], "TraceUtils").get("selftest", []):
            raise common.MachineryError("X01 self-test did not fire")
    log(f"[X01] per function: {dict(Counter(r['fn'] for r in recs))}")
    return 1 if bad else 0
