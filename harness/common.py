"""Shared machinery: paths, TLC invocation, JSON emission parsing, batched trace
validation, evidence / replay / known-findings handling."""
import json
import os
import re
import shutil
import subprocess
import sys
import tempfile
import time
from concurrent.futures import ThreadPoolExecutor

VERIF = os.path.dirname(os.path.dirname(os.path.abspath(__file__)))
SPEC = os.path.join(VERIF, "spec")
# runs against a scratch copy of the repository (seeded changes) must not overwrite the evidence of /repo
EVID = os.environ.get("XGI_VERIF_EVIDENCE", os.path.join(VERIF, "evidence"))
REPLAYS = os.environ.get("XGI_VERIF_REPLAYS", os.path.join(VERIF, "replays"))
REPO = os.environ.get("XGI_REPO", "/repo")
TLA_CP = "/opt/veriftools/tla/tla2tools.jar:/opt/veriftools/tla/CommunityModules-deps.jar"
NCPU = min(16, os.cpu_count() or 4)


class MachineryError(Exception):
    """TLC failed, output unparsable, self-test did not fire ... (exit code 2)"""


def seed():
    try:
        return int(os.environ.get("VERIF_SEED", "0"))
    except ValueError:
        return 0


def tier(default="quick"):
    t = os.environ.get("VERIF_TIER", default)
    return t if t in ("quick", "thorough") else default


_tmp_root = None


def scratch():
    global _tmp_root
    if _tmp_root is None:
        _tmp_root = tempfile.mkdtemp(prefix="xgiverif-")
        import atexit

        atexit.register(lambda: shutil.rmtree(_tmp_root, ignore_errors=True))
    return _tmp_root


def repo_head():
    try:
        return subprocess.run(["git", "-C", REPO, "rev-parse", "HEAD"], capture_output=True,
                              text=True, timeout=20).stdout.strip()
    except Exception:
        return "unknown"


# ---------------------------------------------------------------------------
# TLC
# ---------------------------------------------------------------------------
def run_tlc(module, cfg, *, workers=NCPU, env=None, extra=(), timeout=3600, heap="6g", outfile=None,
            constants=None):
    """Run TLC on spec/<module>.tla with spec/<cfg> (or a cfg text given as `constants`
    substitution dict applied to a template).  Returns (rc, stdout_text_or_path)."""
    md = tempfile.mkdtemp(prefix="tlcmeta-", dir=scratch())
    cfgpath = os.path.join(SPEC, cfg)
    if constants:
        txt = open(cfgpath).read()
        for k, v in constants.items():
            txt = re.sub(rf"^(\s*{re.escape(k)}\s*=).*$", lambda m_: f"{m_.group(1)} {v}", txt, flags=re.M)
        cfgpath = os.path.join(md, os.path.basename(cfg))
        open(cfgpath, "w").write(txt)
    cmd = ["java", "-XX:+UseParallelGC", "-Xss64m", f"-Xmx{heap}", "-cp", TLA_CP, "tlc2.TLC",
           "-workers", str(workers), "-metadir", md, "-noGenerateSpecTE",
           "-config", cfgpath, *extra, os.path.join(SPEC, module + ".tla")]
    e = dict(os.environ)
    if env:
        e.update(env)
    if outfile:
        with open(outfile, "w") as fh:
            p = subprocess.run(cmd, stdout=fh, stderr=subprocess.STDOUT, env=e, cwd=SPEC, timeout=timeout)
        shutil.rmtree(md, ignore_errors=True)
        return p.returncode, outfile
    p = subprocess.run(cmd, capture_output=True, text=True, env=e, cwd=SPEC, timeout=timeout)
    shutil.rmtree(md, ignore_errors=True)
    return p.returncode, p.stdout + p.stderr


def iter_emitted(path_or_text, is_path=True):
    """Yield the JSON objects that a spec printed with PrintT(ToJson(..)): lines that are a
    quoted TLA+ string."""
    fh = open(path_or_text) if is_path else path_or_text.splitlines()
    try:
        for line in fh:
            line = line.strip()
            if len(line) > 2 and line[0] == '"' and line[-1] == '"' and line[1] in "{[":
                try:
                    yield json.loads(json.loads(line))
                except json.JSONDecodeError:
                    raise MachineryError(f"unparsable TLC emission: {line[:200]}")
    finally:
        if is_path:
            fh.close()


def tlc_stats(text):
    """(generated, distinct, depth) from TLC's final report; raises MachineryError if TLC
    reported an error."""
    m = re.search(r"(\d[\d,]*) states generated, (\d[\d,]*) distinct states found", text)
    d = re.search(r"depth of the complete state graph search is (\d+)", text)
    if not m:
        raise MachineryError("TLC did not finish:\n" + text[-3000:])
    g = int(m.group(1).replace(",", ""))
    s = int(m.group(2).replace(",", ""))
    return g, s, int(d.group(1)) if d else 0


def tlc_error(text):
    m = re.search(r"^Error: (.*)$", text, flags=re.M)
    return m.group(1) if m else None


# ---------------------------------------------------------------------------
# batched trace validation
# ---------------------------------------------------------------------------
def validate_records(records, trace_module, trace_cfg="", *, chunk=4000, jobs=NCPU, timeout=3600):
    """Validate trace records (dicts with unique 'rid') with spec/<trace_module>.tla.
    Returns {rid: [clauses]} for the rejected ones.  Raises MachineryError when TLC
    did not consume every record."""
    if not records:
        return {}
    trace_cfg = trace_cfg or trace_module + ".cfg"
    d = tempfile.mkdtemp(prefix="trace-", dir=scratch())
    nchunks = max(1, (len(records) + chunk - 1) // chunk)  # bounded chunk size: a 1g JVM parses a few thousand records
    size = (len(records) + nchunks - 1) // nchunks
    files = []
    for c in range(nchunks):
        part = records[c * size:(c + 1) * size]
        if not part:
            continue
        p = os.path.join(d, f"t{c}.ndjson")
        with open(p, "w") as fh:
            for r in part:
                fh.write(json.dumps(r, separators=(",", ":")))
                fh.write("\n")
        files.append((p, len(part)))

    def one(arg):
        p, n = arg
        rc, out = run_tlc(trace_module, trace_cfg, workers=1, env={"TRACE_FILE": p}, heap="1g",
                          timeout=timeout)
        bad = {}
        consumed = None
        for obj in iter_emitted(out, is_path=False):
            if "rid" in obj:
                bad[obj["rid"]] = list(obj["v"])
            elif "consumed" in obj:
                consumed = (obj["consumed"], obj["total"])
        if consumed is None or consumed[0] != n or consumed[1] != n:
            lines_ = out.splitlines()
            keep = set()
            for k_, l in enumerate(lines_):
                if l.startswith("Error") or ("line " in l and "module" in l and not l.startswith("State")):
                    keep.update(range(k_, min(len(lines_), k_ + 4)))
            errs = "\n".join(lines_[k_] for k_ in sorted(keep) if not lines_[k_].startswith(("State ", "i = ")))[:3000]
            raise MachineryError(f"trace validation incomplete ({consumed} of {n}) for {p}:\n{errs}\n{out[-1500:]}")
        return bad

    bad = {}
    with ThreadPoolExecutor(max_workers=max(1, min(jobs, 10))) as ex:  # at most 10 JVMs x 1g at a time
        for b in ex.map(one, files):
            bad.update(b)
    shutil.rmtree(d, ignore_errors=True)
    return bad


# ---------------------------------------------------------------------------
# known findings, violations, evidence
# ---------------------------------------------------------------------------
def load_known():
    p = os.path.join(VERIF, "known_findings.json")
    if not os.path.exists(p):
        return []
    return json.load(open(p))


def write_replay(prop, payload):
    os.makedirs(REPLAYS, exist_ok=True)
    import hashlib

    blob = json.dumps(payload, sort_keys=True, default=str)
    h = hashlib.sha1(blob.encode()).hexdigest()[:12]
    path = os.path.join(REPLAYS, f"{prop}-{h}.json")
    with open(path, "w") as fh:
        fh.write(json.dumps(payload, indent=1, default=str))
    return path


def write_evidence(prop, *, tier_, seed_, coverage, wall_s, violations, assumptions=(), level="model_checking"):
    os.makedirs(EVID, exist_ok=True)
    ev = {
        "property_id": prop, "tier": tier_, "seed": int(seed_), "level": level,
        "coverage": coverage, "assumptions": list(assumptions), "wall_s": round(float(wall_s), 2),
        "violations": int(violations),
    }
    with open(os.path.join(EVID, f"{prop}.json"), "w") as fh:
        json.dump(ev, fh, indent=1, default=str)
    return ev


class Timer:
    def __init__(self):
        self.t0 = time.time()

    def __call__(self):
        return time.time() - self.t0


def log(*a):
    print(*a, file=sys.stderr, flush=True)
