"""C17: a seed fully determines every stochastic result (spec/Seeded.tla)."""
import inspect
import json
import os
import random
import signal
import subprocess
import tempfile
import warnings
import zlib
from concurrent.futures import ProcessPoolExecutor

import networkx as nx
import numpy as np
import xgi as _xgi

from . import common, core, hg, obscore
from .common import log

_MODE = {"positional": False}
# abstract seeds of Seeded.tla -> concrete values (0 is a seed like any other)
SEEDMAP = {1: 0, 2: 3}


class _Proxy:
    """the xgi namespace as the recipes see it: with _MODE["positional"] every `seed=` keyword is handed
    over positionally instead (the same call as far as the documentation is concerned)"""

    def __getattr__(self, name):
        attr = getattr(_xgi, name)
        if not (_MODE["positional"] and inspect.isfunction(attr)):
            return attr

        def call(*a, **kw):
            if "seed" not in kw:
                return attr(*a, **kw)
            try:
                sig = inspect.signature(attr)
                rest = {k: v for k, v in kw.items() if k != "seed"}
                ba = sig.bind_partial(*a, **rest)
                vals = []
                for p_ in sig.parameters.values():
                    if p_.name == "seed":
                        break
                    if p_.kind not in (p_.POSITIONAL_ONLY, p_.POSITIONAL_OR_KEYWORD):
                        return attr(*a, **kw)
                    if p_.name in ba.arguments:
                        vals.append(ba.arguments[p_.name])
                        rest.pop(p_.name, None)
                    elif p_.default is not inspect.Parameter.empty:
                        vals.append(p_.default)
                    else:
                        return attr(*a, **kw)
                else:
                    return attr(*a, **kw)
                if sig.parameters["seed"].kind not in (inspect.Parameter.POSITIONAL_ONLY, inspect.Parameter.POSITIONAL_OR_KEYWORD):
                    return attr(*a, **kw)
            except TypeError:
                return attr(*a, **kw)
            return attr(*vals, kw["seed"], **rest)
        return call


xgi = _Proxy()


def seeded_functions():
    out = []
    for name in sorted(dir(_xgi)):
        if name.startswith("_"):
            continue
        f = getattr(_xgi, name)
        if inspect.isfunction(f):
            try:
                if "seed" in inspect.signature(f).parameters:
                    out.append(name)
            except (TypeError, ValueError):
                pass
    return out


def _H():
    return xgi.Hypergraph([[0, 1, 2], [1, 2, 3], [3, 4], [4, 5, 6, 0], [2, 5], [0, 6]])


def _H2():
    # large enough for ARPACK to start from a random vector (small matrices are solved densely)
    H = xgi.random_hypergraph(20, [0.15, 0.02], seed=3)
    H.cleanup()
    return H


def _SC():
    return xgi.SimplicialComplex([[0, 1, 2], [2, 3], [3, 4, 5], [5, 0], [6, 7]])


def _Hdis(extra=0):
    # a hypergraph with a small second component ({2, 7}); `extra` further two-node components
    edges = [[1, 3, 6], [3, 4, 8, 10], [4, 11], [6, 9], [4, 10], [2, 7], [3, 8], [5, 6, 10], [0, 9]]
    return xgi.Hypergraph(edges + [[20 + 2 * q, 21 + 2 * q] for q in range(extra)])


def _H3():
    H = xgi.random_hypergraph(12, [0.25, 0.05], seed=11)
    H.cleanup()
    return H


# argument objects that live across calls: "the same arguments" are very often the same objects
_K1 = {i: 2 for i in range(6)}
_K2 = {i: 3 for i in range(4)}
_G1 = {i: i % 2 for i in range(6)}
_G2 = {i: i % 2 for i in range(4)}
_OMEGA = np.array([[5.0, 1.0], [1.0, 5.0]])
_PMAT = np.array([[0.8, 0.3], [0.3, 0.7]])
_SIZES = [3, 3]
_KCFG = {i: 2 for i in range(6)}
_H0 = []


def _same_H():
    if not _H0:
        _H0.append(_H())
    return _H0[0]


def _siblings():
    """other seeded library calls made between the two calls under test (with other inputs and seeds)"""
    with warnings.catch_warnings():
        warnings.simplefilter("ignore")
        K = xgi.Hypergraph([[0, 1, 2, 3], [3, 4, 5], [5, 6], [6, 7, 8, 9]])
        for f in (lambda: xgi.weighted_barycenter_spring_layout(K, seed=91), lambda: xgi.barycenter_spring_layout(K, seed=92),
                  lambda: xgi.random_hypergraph(5, [0.5], seed=93), lambda: xgi.uniform_erdos_renyi_hypergraph(5, 2, 1, seed=94),
                  lambda: xgi.random_simplicial_complex(5, [0.5, 0.5], seed=95), lambda: xgi.shuffle_hyperedges(K, 2, 0.5, seed=96),
                  lambda: xgi.pairwise_spring_layout(K, seed=97)):
            try:
                f()
            except Exception:  # noqa: BLE001
                pass


def _use(x):
    """what a caller does with a result: it owns it and changes it"""
    try:
        if isinstance(x, (_xgi.Hypergraph, _xgi.DiHypergraph)):
            if not x.is_frozen:
                x.add_node("__mine__")
                x.remove_nodes_from(list(x.nodes)[:1])
        elif isinstance(x, dict):
            for k_ in list(x)[:1]:
                x[k_] = "__mine__"
            x["__mine__"] = 0
        elif isinstance(x, np.ndarray) and x.flags.writeable and x.size:
            x.flat[0] = 12345
        elif isinstance(x, list):
            x.append("__mine__")
        elif isinstance(x, tuple):
            for y in x:
                _use(y)
    except Exception:  # noqa: BLE001
        pass


RECIPES = {
    "dcsbm_hypergraph#same_objects": lambda s: xgi.dcsbm_hypergraph(_K1, _K2, _G1, _G2, _OMEGA, seed=s),
    "chung_lu_hypergraph#same_objects": lambda s: xgi.chung_lu_hypergraph(_K1, _K2, seed=s),
    "uniform_HSBM#same_objects": lambda s: xgi.uniform_HSBM(6, 2, _PMAT, _SIZES, seed=s),
    "uniform_hypergraph_configuration_model#same_objects": lambda s: xgi.uniform_hypergraph_configuration_model(_KCFG, 3, seed=s),
    "barycenter_spring_layout#same_network": lambda s: xgi.barycenter_spring_layout(_same_H(), seed=s),
    "shuffle_hyperedges#same_network": lambda s: xgi.shuffle_hyperedges(_same_H(), 2, 0.6, seed=s),
    "uniform_erdos_renyi_hypergraph#p1": lambda s: xgi.uniform_erdos_renyi_hypergraph(7, 3, 1, seed=s),
    "fast_random_hypergraph": lambda s: xgi.fast_random_hypergraph(8, [0.3, 0.2], seed=s),
    "random_hypergraph": lambda s: xgi.random_hypergraph(7, [0.3, 0.2], seed=s),
    "chung_lu_hypergraph": lambda s: xgi.chung_lu_hypergraph({i: 2 for i in range(6)}, {i: 3 for i in range(4)}, seed=s),
    "dcsbm_hypergraph": lambda s: xgi.dcsbm_hypergraph({i: 2 for i in range(6)}, {i: 3 for i in range(4)},
                                                       {i: i % 2 for i in range(6)}, {i: i % 2 for i in range(4)},
                                                       np.array([[5, 1], [1, 5]]), seed=s),
    "watts_strogatz_hypergraph": lambda s: xgi.watts_strogatz_hypergraph(8, 3, 2, 1, 0.5, seed=s),
    # tiny wiring probabilities (skip lengths far beyond the usual range) on large index spaces
    "uniform_erdos_renyi_hypergraph#tiny_p": lambda s: xgi.uniform_erdos_renyi_hypergraph(3000, 3, 4e-9, seed=s),
    "fast_random_hypergraph#tiny_p": lambda s: xgi.fast_random_hypergraph(2500, [5e-9], order=[2], seed=s),
    # simplicial complexes as input of the layouts
    "barycenter_spring_layout#SC": lambda s: xgi.barycenter_spring_layout(_SC(), seed=s),
    "weighted_barycenter_spring_layout#SC": lambda s: xgi.weighted_barycenter_spring_layout(_SC(), seed=s),
    "pairwise_spring_layout#SC": lambda s: xgi.pairwise_spring_layout(_SC(), seed=s),
    "bipartite_spring_layout#SC": lambda s: xgi.bipartite_spring_layout(_SC(), seed=s),
    "random_layout#SC": lambda s: xgi.random_layout(_SC(), seed=s),
    # many clusters on a small, poorly separable hypergraph (clusters run empty during k-means)
    "spectral_clustering#k5": lambda s: xgi.spectral_clustering(_H3(), 5, seed=s),
    "spectral_clustering#k4": lambda s: xgi.spectral_clustering(_H3(), 4, seed=s),
    # disconnected hypergraphs: a degenerate spectrum, the eigensolver restarts from new random vectors
    "spectral_clustering#disconnected": lambda s: xgi.spectral_clustering(_Hdis(), 2, seed=s),
    "spectral_clustering#disconnected3": lambda s: xgi.spectral_clustering(_Hdis(1), 3, seed=s),
    # small dense ring: rewired edges often land on existing ones
    "watts_strogatz_hypergraph#dense": lambda s: xgi.watts_strogatz_hypergraph(6, 2, 4, 0, 0.9, seed=s),
    # degree sum not a multiple of m: the repair branch
    "uniform_hypergraph_configuration_model#repair": lambda s: xgi.uniform_hypergraph_configuration_model(
        {i: 2 for i in range(5)}, 3, seed=s),
    "shuffle_hyperedges": lambda s: xgi.shuffle_hyperedges(_H(), 2, 0.8, seed=s),
    "random_simplicial_complex": lambda s: xgi.random_simplicial_complex(7, [0.4, 0.3], seed=s),
    "flag_complex": lambda s: xgi.flag_complex(nx.complete_graph(5), max_order=3, ps=[0.5, 0.5], seed=s),
    "flag_complex_d2": lambda s: xgi.flag_complex_d2(nx.complete_graph(5), p2=0.5, seed=s),
    "random_flag_complex_d2": lambda s: xgi.random_flag_complex_d2(7, 0.5, seed=s),
    "random_flag_complex": lambda s: xgi.random_flag_complex(7, 0.5, max_order=3, seed=s),
    "uniform_hypergraph_configuration_model": lambda s: xgi.uniform_hypergraph_configuration_model(
        {i: 3 for i in range(6)}, 3, seed=s),
    "uniform_HSBM": lambda s: xgi.uniform_HSBM(8, 2, np.array([[0.6, 0.2], [0.2, 0.6]]), [4, 4], seed=s),
    "uniform_HPPM": lambda s: xgi.uniform_HPPM(8, 2, 2, 0.7, seed=s),
    "uniform_erdos_renyi_hypergraph": lambda s: xgi.uniform_erdos_renyi_hypergraph(8, 3, 0.3, seed=s),
    "random_layout": lambda s: xgi.random_layout(_H(), seed=s),
    "pairwise_spring_layout": lambda s: xgi.pairwise_spring_layout(_H(), seed=s),
    "barycenter_spring_layout": lambda s: xgi.barycenter_spring_layout(_H(), seed=s),
    "weighted_barycenter_spring_layout": lambda s: xgi.weighted_barycenter_spring_layout(_H(), seed=s),
    "bipartite_spring_layout": lambda s: xgi.bipartite_spring_layout(_H(), seed=s),
    "spectral_clustering": lambda s: xgi.spectral_clustering(_H2(), 3, seed=s),
}


# ---------------------------------------------------------------------------
# argument boxes: the recipes above are single points of each function's argument space; a box draws
# further points (degenerate block structures, odd sizes, probabilities 0 / 1 / tiny, sizes beyond the
# thresholds of size-dependent code paths, other label kinds, optional arguments) from a generator that is
# re-created for every call, so that "the same arguments" are equal values in fresh objects
# ---------------------------------------------------------------------------
def _rh(r, n=None, labels=None, cover=False):
    """an input hypergraph for layouts / shuffles / clustering (built with explicit seeds: a function of r only)"""
    n = n or r.choice([5, 7, 10])
    edges = []
    for _ in range(r.randint(3, 7) + (n // 2 if cover else 0)):
        edges.append(r.sample(range(n), r.choice([2, 2, 3, 3, 4])))
    if cover:  # every node in some edge (spectral clustering refuses isolated nodes)
        for x in range(n):
            if not any(x in e for e in edges):
                r.choice(edges).append(x)
    H = _xgi.Hypergraph()
    kind = labels or r.choice(["int", "int", "str", "iso"])
    lab = (lambda x: f"n{x}") if kind == "str" else (lambda x: x)
    H.add_nodes_from([lab(x) for x in range(n + (2 if kind == "iso" else 0))])
    H.add_edges_from([[lab(x) for x in e] for e in edges])
    return H


def _pick_p(r):
    # mostly probabilities strictly between 0 and 1: a deterministic outcome says nothing about the seed
    return r.choice([0.0, 0.05, 0.05, 0.3, 0.3, 0.5, 0.5, 0.8, 0.8, 1.0])


def _box_hsbm(r):
    nb = r.choice([1, 1, 2, 3])
    sizes = [r.randint(2, 4) for _ in range(nb)]
    m = r.choice([2, 3])
    vals = [r.choice([0.0, 0.1, 0.1, 0.5, 0.5, 1.0]) for _ in range(nb ** m)]
    if all(v in (0.0, 1.0) for v in vals):
        vals[r.randrange(len(vals))] = r.choice([0.2, 0.6])
    p = np.array(vals, dtype=float).reshape((nb,) * m)
    return lambda s: xgi.uniform_HSBM(sum(sizes), m, p, list(sizes), seed=s)


def _box_hppm(r):
    n, m, k = r.choice([5, 7, 8, 9, 11, 15, 30]), r.choice([2, 3]), r.choice([1, 2, 3])
    eps, rho = r.choice([0, 0.3, 0.9, 1]), r.choice([0.5, 0.5, 0.35, 0.2, 0.8])
    return lambda s: xgi.uniform_HPPM(n, m, k, eps, rho, seed=s)


def _box_er(r):
    n, m = r.choice([4, 6, 9, 40]), r.choice([2, 3])
    pt = r.choice(["prob", "prob", "degree"])
    p = _pick_p(r) if pt == "prob" else r.choice([0.5, 1, 2])
    me = r.random() < 0.5
    return lambda s: xgi.uniform_erdos_renyi_hypergraph(n, m, p, p_type=pt, multiedges=me, seed=s)


def _box_rh(name):
    def box(r):
        n = r.choice([3, 5, 8, 12])
        ps = [_pick_p(r) * r.choice([1, 0.1]) for _ in range(r.randint(1, 3))]
        order = None if r.random() < 0.6 else r.sample([1, 2, 3, 4], len(ps))
        return lambda s: getattr(xgi, name)(n, list(ps), order=order, seed=s)
    return box


def _box_rsc(r):
    N = r.choice([4, 6, 9, 200, 60])
    ps = {200: [0.002, 2e-6], 60: [0.01, 1e-4, 1e-6, 3e-7]}.get(N) or [_pick_p(r) for _ in range(r.randint(1, 3))]
    return lambda s: xgi.random_simplicial_complex(N, list(ps), seed=s)


def _box_ws(r):
    n, d = r.choice([6, 8, 11]), r.choice([2, 3])
    k, l, p = r.choice([2, 4]), r.choice([0, 1, 2]), r.choice([0, 0.3, 1])
    return lambda s: xgi.watts_strogatz_hypergraph(n, d, k, l, p, seed=s)


def _box_cl(r):
    n1, n2 = r.randint(3, 7), r.randint(2, 5)
    k1, k2 = [r.randint(0, 3) for _ in range(n1)], [r.randint(1, 4) for _ in range(n2)]
    return lambda s: xgi.chung_lu_hypergraph({i: d for i, d in enumerate(k1)}, {i: d for i, d in enumerate(k2)}, seed=s)


def _box_dcsbm(r):
    n1, n2, g = r.randint(3, 7), r.randint(2, 5), r.choice([1, 2, 3])
    k1, k2 = [r.randint(1, 3) for _ in range(n1)], [r.randint(1, 4) for _ in range(n2)]
    g1, g2 = [i % g for i in range(n1)], [i % g for i in range(n2)]
    om = [[float(r.choice([0, 1, 3, 6])) for _ in range(g)] for _ in range(g)]
    return lambda s: xgi.dcsbm_hypergraph(dict(enumerate(k1)), dict(enumerate(k2)), dict(enumerate(g1)), dict(enumerate(g2)),
                                          np.array(om), seed=s)


def _box_cfg(r):
    ks, m = [r.randint(1, 3) for _ in range(r.randint(4, 8))], r.choice([2, 3])
    lab = r.choice([lambda i: i, lambda i: f"v{i}"])
    return lambda s: xgi.uniform_hypergraph_configuration_model({lab(i): d for i, d in enumerate(ks)}, m, seed=s)


def _box_flag(name):
    def box(r):
        n, gs = r.choice([4, 5, 6, 8]), r.randint(0, 99)
        dens = r.choice([0.5, 0.8, 1.0])
        mo = r.choice([2, 3])
        ps = [_pick_p(r) for _ in range(mo - 1)] if r.random() < 0.8 else None
        if name == "flag_complex":
            return lambda s: xgi.flag_complex(nx.gnp_random_graph(n, dens, seed=gs), max_order=mo, ps=ps, seed=s)
        if name == "flag_complex_d2":
            return lambda s: xgi.flag_complex_d2(nx.gnp_random_graph(n, dens, seed=gs), p2=None if ps is None else ps[0], seed=s)
        if name == "random_flag_complex":
            return lambda s: xgi.random_flag_complex(n, dens, max_order=mo, seed=s)
        return lambda s: xgi.random_flag_complex_d2(n, dens, seed=s)
    return box


def _box_layout(name):
    def box(r):
        st = r.getstate()
        kw = {}
        if name == "random_layout":
            kw = r.choice([{}, {"center": [1.0, -2.0]}])
        elif r.random() < 0.4:
            kw = {"k": r.choice([0.3, 1.0])}
        sc = r.random() < 0.25

        def call(s):
            r2 = random.Random()
            r2.setstate(st)
            H = _rh(r2)
            if sc:
                H = _xgi.SimplicialComplex([list(m) for m in H.edges.members()])
            return getattr(xgi, name)(H, seed=s, **kw)
        return call
    return box


def _box_shuffle(r):
    st = r.getstate()
    order, p = r.choice([1, 2]), r.choice([0.3, 0.7, 1])

    def call(s):
        r2 = random.Random()
        r2.setstate(st)
        return xgi.shuffle_hyperedges(_rh(r2, labels="int"), order, p, seed=s)
    return call


def _box_spectral(r):
    st = r.getstate()
    k = r.choice([2, 3, 4])

    def call(s):
        r2 = random.Random()
        r2.setstate(st)
        return xgi.spectral_clustering(_rh(r2, n=r2.choice([12, 16, 22]), labels="int", cover=True), k, seed=s)
    return call


BOXES = {
    "uniform_HSBM": _box_hsbm, "uniform_HPPM": _box_hppm, "uniform_erdos_renyi_hypergraph": _box_er,
    "fast_random_hypergraph": _box_rh("fast_random_hypergraph"), "random_hypergraph": _box_rh("random_hypergraph"),
    "random_simplicial_complex": _box_rsc, "watts_strogatz_hypergraph": _box_ws, "chung_lu_hypergraph": _box_cl,
    "dcsbm_hypergraph": _box_dcsbm, "uniform_hypergraph_configuration_model": _box_cfg,
    "flag_complex": _box_flag("flag_complex"), "flag_complex_d2": _box_flag("flag_complex_d2"),
    "random_flag_complex": _box_flag("random_flag_complex"), "random_flag_complex_d2": _box_flag("random_flag_complex_d2"),
    "random_layout": _box_layout("random_layout"), "pairwise_spring_layout": _box_layout("pairwise_spring_layout"),
    "barycenter_spring_layout": _box_layout("barycenter_spring_layout"),
    "weighted_barycenter_spring_layout": _box_layout("weighted_barycenter_spring_layout"),
    "bipartite_spring_layout": _box_layout("bipartite_spring_layout"), "shuffle_hyperedges": _box_shuffle,
    "spectral_clustering": _box_spectral,
}
NBOX = {"quick": 8, "thorough": 60}


def box_variants(tier, seed_):
    out = []
    for fn, box in BOXES.items():
        for i in range(NBOX[tier]):
            out.append((f"{fn}@box{i}", lambda s, box=box, key=f"{seed_}/{fn}/{i}": box(random.Random(key))(SEEDMAP[s])))
    return out


def variants():
    """(name, callable(seed)) for every recipe, with python-int seeds and with numpy-integer seeds"""
    out = []
    for name, f in RECIPES.items():
        out.append((name, lambda s, f=f: f(SEEDMAP[s])))
        out.append((name + "[np.int64 seed]", lambda s, f=f: f(np.int64(SEEDMAP[s]))))
        out.append((name + "[positional seed]", lambda s, f=f: _positional(f, SEEDMAP[s])))
        # one SeedSequence object per seed, used again at every call with that seed
        out.append((name + "[SeedSequence seed]", lambda s, f=f: f(_SEQ.setdefault(s, np.random.SeedSequence(SEEDMAP[s])))))
    return out


_SEQ = {}


def _positional(f, s):
    _MODE["positional"] = True
    try:
        return f(s)
    finally:
        _MODE["positional"] = False


def canon(x):
    """canonical text of an output: determinism means IDENTICAL output, including order"""
    if isinstance(x, (xgi.Hypergraph, xgi.DiHypergraph)):
        return repr((type(x).__name__, [repr(n) for n in x._node], [(repr(e), sorted(map(repr, m)) if not isinstance(m, dict) else repr(m))
                                                                      for e, m in x._edge.items()],
                     sorted((repr(k), repr(v)) for k, v in x._edge_attr.items())))
    if isinstance(x, dict):
        return repr([(repr(k), canon(v)) for k, v in x.items()])
    if isinstance(x, np.ndarray):
        return repr((x.shape, x.tobytes().hex()))
    if isinstance(x, (tuple, list)):
        return repr([canon(v) for v in x])
    if isinstance(x, (float, np.floating)):
        return float(x).hex()
    return repr(x)


def digest(x):
    return zlib.crc32(canon(x).encode()) & 0x7FFFFFFF


class _Timeout(Exception):
    pass


def _alarm(signum, frame):
    raise _Timeout()


def _worker(args):
    fn, schedules, base = args
    signal.signal(signal.SIGALRM, _alarm)
    f = dict(variants() + box_variants(common.tier(), common.seed()))[fn]
    out = []
    for k, acts in enumerate(schedules):
        rec = []
        _SEQ.clear()
        for a in acts:
            e = {"a": a["a"], "s": a["s"], "digest": 0}
            if a["a"] == "call":
                signal.alarm(30)
                try:
                    with warnings.catch_warnings():
                        warnings.simplefilter("ignore")
                        out_ = f(a["s"])
                        e["digest"] = digest(out_)
                        _use(out_)
                except Exception:  # noqa: BLE001
                    e["digest"] = -1
                finally:
                    signal.alarm(0)
            elif a["a"] == "draw_py":
                random.random()
                random.sample(range(10), 3)
                if k % 3 == 0:
                    _siblings()
            elif a["a"] == "draw_np":
                np.random.rand(3)
                np.random.randint(0, 10)
            elif a["a"] == "seed_py":
                random.seed(12345 + k)
            elif a["a"] == "seed_np":
                np.random.seed(54321 + k)
            rec.append(e)
        out.append({"rid": f"{fn}.{base + k}", "what": fn, "fn": fn, "acts": rec, "strict": "[np.int64" not in fn and "[SeedSequence" not in fn and "@box" not in fn})
    return out


def enumerate_schedules(depth):
    d = tempfile.mkdtemp(prefix="seeded-", dir=common.scratch())
    cfg = os.path.join(d, "s.cfg")
    open(cfg, "w").write(f"SPECIFICATION Spec\nCONSTANTS\n  Depth = {depth}\n  Seeds = {{1, 2}}\nINVARIANT TypeOK\n"
                         "INVARIANT EmitHist\nCHECK_DEADLOCK FALSE\n")
    p = subprocess.run(core._tlc_cmd("Seeded", cfg, os.path.join(d, "m"), 4, "2g"), capture_output=True, text=True,
                       cwd=common.SPEC, timeout=1800)
    out = p.stdout + p.stderr
    scheds, rest = [], []
    for line in out.splitlines():
        s = line.strip()
        if len(s) > 2 and s[0] == '"' and s[-1] == '"' and s[1] == "{":
            scheds.append(json.loads(json.loads(s))["acts"])
        else:
            rest.append(line)
    text = "\n".join(rest)
    if common.tlc_error(text):
        raise common.MachineryError("Seeded: " + common.tlc_error(text))
    gen, distinct, depth_ = common.tlc_stats(text)
    return scheds, {"states": distinct, "transitions": gen, "depth": depth_, "module": "Seeded",
                    "constants": {"Depth": depth, "Seeds": "{1, 2}"}}


def run(tier, seed_):
    t = common.Timer()
    scheds, mc = enumerate_schedules(4 if tier == "quick" else 5)
    fns = seeded_functions()
    uncovered = [f for f in fns if f not in RECIPES]
    allv = [n for n, _ in variants() if n.split("[")[0].split("#")[0] in fns]
    rng = random.Random(seed_)
    per_fn = 24 if tier == "quick" else 400
    jobs = []
    nb = 0
    for i, (fn, _) in enumerate(box_variants(tier, seed_)):
        if fn.split("@")[0] not in fns:
            continue
        pick = rng.sample(scheds, min(len(scheds), 5 if tier == "quick" else 30))
        jobs.append((fn, pick, (1000 + i) * 100003))
        nb += 1
    for i, fn in enumerate(allv):
        pick = scheds if len(scheds) <= per_fn else rng.sample(scheds, per_fn)
        if ("[np.int64" in fn or "[SeedSequence" in fn or "[positional" in fn) and tier == "quick":
            pick = pick[:8]
        slow = fn.split("[")[0] in ("spectral_clustering", "pairwise_spring_layout", "barycenter_spring_layout",
                      "weighted_barycenter_spring_layout", "bipartite_spring_layout")
        if slow:
            pick = pick[:12] if tier == "quick" else pick[:80]
        jobs.append((fn, pick, i * 100003))
    recs = []
    with ProcessPoolExecutor(max_workers=common.NCPU) as ex:
        for part in ex.map(_worker, jobs):
            recs += part
    log(f"[C17] {len(recs)} schedules over {len(jobs)} seeded functions, {len(scheds)} schedules enumerated by TLC ({t():.0f}s)")

    def selftest(records, bad):
        m = json.loads(json.dumps(next(r for r in records if r["rid"] not in bad)))
        m["rid"] = "selftest"
        calls = [a for a in m["acts"] if a["a"] == "call"]
        same = [a for a in calls if a["s"] == calls[0]["s"]]
        if len(same) < 2:
            calls[1]["s"] = calls[0]["s"]
            same = calls[:2]
        same[1]["digest"] = (same[0]["digest"] + 1) & 0x7FFFFFFF
        v = common.validate_records([m], "TraceSeeded")
        if not v.get("selftest"):
            raise common.MachineryError("C17 self-test did not fire")
        return {"corrupted_records": 1, "rejected": 1}

    samples = [{"rid": r["rid"], "schedule": r["acts"]} for r in recs[:: max(1, len(recs) // 5)]][:5]
    return obscore.report(
        "C17", tier, seed_, t, records=recs, trace_module="TraceSeeded", mc_stats=mc,
        rule="schedules = every action sequence of length Depth of Seeded.tla (two seeds, global Python / NumPy draws "
             "and re-seeds in between) that repeats a seed, sampled per function to the budget; each is run in one "
             "interpreter per seeded function (found by introspection of the `seed` parameter); distinct = (function, "
             "schedule)",
        samples=samples, selftest=selftest, class_of=lambda r: r["rid"],
        extra={"seeded_functions": fns, "uncovered_callables": uncovered},
        assumptions=["outputs are compared through a 31-bit digest of a canonical text (exact bytes for arrays); a "
                     "collision could hide a difference", "arguments per function come from a recipe table and from argument boxes "
                     "(harness/c17.py BOXES: degenerate block structures, odd sizes, probabilities 0 / 1 / tiny, sizes beyond "
                     "size-dependent thresholds, optional arguments), sampled with the run's seed; a new seeded function "
                     "without recipe is listed as uncovered"])
