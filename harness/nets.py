"""C07: replay of MC_Nets behaviours (copy / pickle / own-class construction followed by
edits on either side) on real objects of the three classes; every step logs the
projection of ALL live slots before and after."""
import json
import pickle
import random
import warnings
from concurrent.futures import ProcessPoolExecutor

import xgi

from . import common, core, dhg, hg, kits, obscore, sc
from .common import log
from .gamma import Gamma

NULL = {"null": True}
CLASSES = {"H": (xgi.Hypergraph, hg.proj), "DH": (xgi.DiHypergraph, dhg.proj), "SC": (xgi.SimplicialComplex, sc.proj)}
FAMS = [("ints", "int"), ("str", "int"), ("shift", "intfloat")]
FAMS7 = FAMS + [("obj", "int"), ("bigint", "int")]  # C07 only: identity-hashed labels, fresh int objects


def seed_network(cls, g, nodeless=False):
    N, E, A = g.node, g.edge, g.attrs
    H = CLASSES[cls][0]()
    if nodeless:  # content without any node: empty edges, their attributes, network attributes
        if cls == "H":
            H.add_edge([], wt=[5])
            H.add_edge([], idx=E(100))
        elif cls == "DH":
            H.add_edge(([], []), wt=[5])
            H.add_edge(([], []), idx=E(100))
        H["wt"] = [7]
        H["color"] = 2
        return H
    H.add_node(N(2), **A([[1, [0, 1]]], "n"))
    if cls == "H":
        H.add_edge([N(0), N(1)], **A([[2, [1, 5]]], "e"))
        H.add_edge([N(1)], idx=E(100))
        H.add_edge([])
    elif cls == "DH":
        H.add_edge(([N(0)], [N(1)]), **A([[2, [1, 5]]], "e"))
        H.add_edge(([N(1)], []), idx=E(100))
        H.add_edge(([], []))
    else:
        H.add_simplex([N(0), N(1)], **A([[2, [1, 5]]], "e"))
        H.add_simplex([N(1)], idx=E(100))
    H["wt"] = [7]
    H["incoming_data"] = 3       # a network attribute named like a constructor parameter
    H[("layer", 1)] = 4          # network attribute names are any hashable
    # a value that looks immutable from outside but holds a mutable object
    H.nodes[N(2)]["mult"] = ("created", ["v1"])
    for e in list(H.edges)[:1]:
        H.edges[e]["mult"] = (2020, {"sources": [1]})
    # node and edge attribute names are any hashable too (a year, a (layer, index) pair): set through the setters
    H.set_node_attributes({N(2): {("layer", 1): 6}, N(1): {("layer", 1): 2, "node": 1}})
    for e in list(H.edges)[:1]:
        H.set_edge_attributes({e: {("layer", 1): 8, "idx": 3}})
    return H


def edit(cls, H, name, g, poke_nodes=True):
    N, E = g.node, g.edge
    with warnings.catch_warnings():
        warnings.simplefilter("ignore")
        try:
            if name == "add_auto":
                if cls == "H":
                    H.add_edge([N(0), N(3)])
                elif cls == "DH":
                    H.add_edge(([N(0)], [N(3)]))
                else:
                    H.add_simplex([N(0), N(3)])
            elif name == "add_explicit":
                if cls == "H":
                    H.add_edge([N(1), N(2)], idx=E(7))
                elif cls == "DH":
                    H.add_edge(([N(1)], [N(2)]), idx=E(7))
                else:
                    H.add_simplex([N(1), N(2)], idx=E(7))
            elif name == "add_node":
                H.add_node(N(4), color=2)
            elif name == "remove_first_edge":
                ids = list(H.edges)
                if ids:
                    (H.remove_simplex_id if cls == "SC" else H.remove_edge)(ids[0])
            elif name == "remove_node":
                if N(1) in H:
                    H.remove_node(N(1))
            elif name == "set_attr":
                H.set_node_attributes(9, name="color")
            elif name == "nested_append":
                def poke(v):
                    if isinstance(v, list):
                        v.append(9)
                    elif isinstance(v, dict):
                        for x in v.values():
                            poke(x)
                    elif isinstance(v, tuple):
                        for x in v:
                            poke(x)
                for e in list(H.edges):
                    for k, v in H.edges[e].items():
                        poke(v)
                # nested independence is promised for copy() (and holds for pickle); the class
                # constructor shares nested node attribute values, which the property does not exclude
                for n in list(H.nodes) if poke_nodes else ():
                    for k, v in H.nodes[n].items():
                        poke(v)
                for k in ("wt", "color"):
                    try:
                        v = H[k]
                    except xgi.exception.XGIError:
                        continue
                    if isinstance(v, list):
                        v.append(9)
            else:
                raise NotImplementedError(name)
            return "ok"
        except NotImplementedError:
            raise
        except Exception as ex:  # noqa: BLE001
            return hg.classify(ex)


def derive(kind, H):
    if kind == "copy":
        return H.copy()
    if kind == "pickle":
        return pickle.loads(pickle.dumps(H))
    if kind == "ctor":
        return type(H)(H)
    raise NotImplementedError(kind)


def project_all(cls, slots, g):
    out, anom = [], []
    for H in slots:
        if H is None:
            out.append(NULL)
        else:
            j, a = CLASSES[cls][1](H, g)
            out.append(j)
            anom += a
    return out, sorted(set(anom))


def replay_behaviour(bid, acts, cls, fam, nslots=2):
    g = Gamma(*fam)
    slots = [None] * nslots
    slots[0] = seed_network(cls, g, nodeless=(hash(bid) % 5 == 0))
    recs = []
    pre, _ = project_all(cls, slots, g)
    ctor_seen = False
    for k, a in enumerate(acts):
        ctor_seen = ctor_seen or a["kind"] == "ctor"
        if a["kind"] == "edit":
            res = edit(cls, slots[a["a"] - 1], a["name"], g, poke_nodes=not ctor_seen)
        else:
            with warnings.catch_warnings():
                warnings.simplefilter("ignore")
                try:
                    slots[a["b"] - 1] = derive(a["kind"], slots[a["a"] - 1])
                    res = "ok"
                except Exception as ex:  # noqa: BLE001
                    res = hg.classify(ex)
        post, anom = project_all(cls, slots, g)
        if res != "ok":
            anom = anom + [f"raised:{res}"]
        recs.append({"rid": f"{bid}.{cls}.{k}", "what": f"{cls} {a['kind']} {a['name']} {a['a']}->{a['b']}",
                     "cls": cls, "gamma": g.name, "kind": a["kind"], "a": a["a"], "b": a["b"], "name": a["name"],
                     "pre": pre, "post": post, "anom": anom, "acts": acts[: k + 1]})
        pre = post
        if anom:
            break
    return recs


def _worker(args):
    chunk, base, nslots = args
    out = []
    for k, acts in enumerate(chunk):
        for ci, cls in enumerate(("H", "DH", "SC")):
            out += replay_behaviour(f"b{base + k}", acts, cls, FAMS7[(base + k + ci) % len(FAMS7)], nslots=nslots)
    return out


BUD = {"quick": {"Depth": 4, "NSlots": 2, "behaviours": 1500},
       "thorough": {"Depth": 5, "NSlots": 3, "behaviours": 20000}}


def enumerate_behaviours(consts):
    import os
    import subprocess
    import tempfile

    d = tempfile.mkdtemp(prefix="nets-", dir=common.scratch())
    cfg = os.path.join(d, "nets.cfg")
    open(cfg, "w").write("SPECIFICATION Spec\nCONSTANTS\n" + "".join(f"  {k} = {v}\n" for k, v in consts.items())
                         + "INVARIANT InvUidFresh\nINVARIANT EmitHist\nPROPERTY PropFrame\nPROPERTY PropCopyEqual\n"
                           "CHECK_DEADLOCK FALSE\n")
    p = subprocess.run(core._tlc_cmd("MC_Nets", cfg, os.path.join(d, "m"), 8, "3g"), capture_output=True, text=True,
                       cwd=common.SPEC, timeout=3600)
    out = p.stdout + p.stderr
    behs, rest = [], []
    for line in out.splitlines():
        s = line.strip()
        if len(s) > 2 and s[0] == '"' and s[-1] == '"' and s[1] == "{":
            behs.append(json.loads(json.loads(s))["acts"])
        else:
            rest.append(line)
    text = "\n".join(rest)
    if common.tlc_error(text):
        raise common.MachineryError("MC_Nets: " + common.tlc_error(text) + text[-2000:])
    gen, distinct, depth = common.tlc_stats(text)
    return behs, {"states": distinct, "transitions": gen, "depth": depth, "constants": consts, "module": "MC_Nets"}


def run(tier, seed_):
    t = common.Timer()
    b = BUD[tier]
    behs, mc = enumerate_behaviours({"NSlots": b["NSlots"], "Depth": b["Depth"]})
    log(f"[C07] TLC: {mc['states']} states, {len(behs)} behaviours of length {b['Depth']} ({t():.0f}s)")
    rng = random.Random(seed_)
    if len(behs) > b["behaviours"]:
        behs = rng.sample(behs, b["behaviours"])
    jobs = common.NCPU
    recs = []
    with ProcessPoolExecutor(max_workers=jobs) as ex:
        for part in ex.map(_worker, [(behs[i::jobs], i * 1000030, b["NSlots"]) for i in range(jobs) if behs[i::jobs]]):
            recs += part
    # TraceNets needs a uniform slot sequence length
    log(f"[C07] {len(behs)} behaviours x 3 classes replayed: {len(recs)} steps ({t():.0f}s)")
    send = [{k: r[k] for k in ("rid", "kind", "a", "b", "name", "pre", "post", "anom")} for r in recs]
    byrid = {r["rid"]: r for r in recs}

    def selftest(records, bad):
        good = [r for r in records if r["rid"] not in bad and r["kind"] == "copy"]
        if not good:
            raise common.MachineryError("C07 self-test: no accepted copy step")
        m = json.loads(json.dumps(good[0]))
        m["rid"] = "selftest0"
        # the source changes together with the copy: a shared internal set
        src = m["post"][m["a"] - 1]
        key = "e2n" if "e2n" in src else "tail"
        src[key] = [x + [9] for x in src[key]]
        v = common.validate_records([m], "TraceNets")
        if "C07:Frame" not in v.get("selftest0", []):
            raise common.MachineryError(f"C07 self-test did not fire: {v}")
        return {"corrupted_records": 1, "rejected": 1}

    samples = [{"rid": r["rid"], "class": r["cls"], "gamma": r["gamma"], "behaviour": r["acts"]} for r in recs[:40:8]]
    for s in send:
        s["what"] = byrid[s["rid"]]["what"]
    return obscore.report(
        "C07", tier, seed_, t, records=send, trace_module="TraceNets", mc_stats=mc,
        rule="behaviours = every action sequence of length Depth of MC_Nets (copy / pickle / own-class constructor "
             "between slots, 7 edits incl. in-place append to nested attribute values), sampled to the budget, each "
             "replayed on Hypergraph, DiHypergraph and SimplicialComplex under 3 label families; distinct = "
             "(class, action kind, edit name, source slot, target slot)",
        samples=samples, selftest=selftest,
        class_of=lambda r: (r["rid"].split(".")[1], r["kind"], r["name"], r["a"], r["b"]),
        assumptions=["the projection reports attribute values deeply (nested lists by value)",
                     "step validity of each edit is decided by C05; here only equality, framing and id freshness"])
