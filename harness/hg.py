"""Binding for xgi.Hypergraph: projection of the real object into the specification's
J form, and execution of abstract op records (spec/HG.tla, OpDefaults) on the real object.
"""
import itertools
import random
import warnings

import xgi
from xgi.exception import XGIError

from .gamma import UNKNOWN

OP_DEFAULTS = {
    "name": "", "n": -1, "n2": -1, "e": -1, "e2": -1, "m": [], "h": [], "id": -1, "a": [],
    "b1": False, "b2": False, "b3": False, "b4": False, "b5": False,
    "items": [], "fmt": 0, "k": 0, "v": [2], "s1": "", "s2": "",
    "ns": [], "kv": [], "kd": [],
}


def mkop(name, **kw):
    op = dict(OP_DEFAULTS)
    op["name"] = name
    for k, v in kw.items():
        if k not in OP_DEFAULTS:
            raise KeyError(k)
        op[k] = v
    return op


def item(m=(), id=-1, a=(), w=(2,)):
    return {"m": list(m), "h": [], "id": id, "a": [list(p) for p in a], "w": list(w)}


def peek_uid(H):
    try:
        return int(H._edge_uid.__reduce__()[1][0])
    except Exception:  # pragma: no cover - total projection
        return -5


# ---------------------------------------------------------------------------
# projection
# ---------------------------------------------------------------------------
def proj(H, g):
    """Total projection of a Hypergraph / SimplicialComplex into the J form.

    Returns (jstate, anomalies).  Raw tables are reported; the public views are compared
    with them and every disagreement (or exception) is an anomaly string."""
    anom = []

    def inv_n(x):
        k = g.inv_node(x)
        if k == UNKNOWN:
            anom.append(f"unknown-node-label:{x!r}")
        return k

    def inv_e(x):
        k = g.inv_edge(x)
        if k == UNKNOWN:
            anom.append(f"unknown-edge-label:{x!r}")
        return k

    rawn = H._node
    rawe = H._edge
    nodes = [inv_n(n) for n in rawn]
    edges = [inv_e(e) for e in rawe]
    n2e, e2n = [], []
    for n in rawn:
        try:
            n2e.append(sorted(inv_e(e) for e in rawn[n]))
        except Exception as ex:
            anom.append(f"bad-memberships:{type(ex).__name__}")
            n2e.append([])
    for e in rawe:
        try:
            e2n.append(sorted(inv_n(n) for n in rawe[e]))
        except Exception as ex:
            anom.append(f"bad-members:{type(ex).__name__}")
            e2n.append([])
    nak = [inv_n(n) for n in H._node_attr]
    eak = [inv_e(e) for e in H._edge_attr]
    nattr = [g.inv_attrs(H._node_attr[n], "n") for n in H._node_attr]
    eattr = [g.inv_attrs(H._edge_attr[e], "e") for e in H._edge_attr]
    gattr = g.inv_attrs(H._net_attr, "g")
    # public views against the raw tables
    try:
        if list(H.nodes) != list(rawn):
            anom.append("view:nodes!=raw")
        if list(H.edges) != list(rawe):
            anom.append("view:edges!=raw")
        if H.num_nodes != len(rawn) or H.num_edges != len(rawe) or len(H) != len(rawn):
            anom.append("view:counts")
        if len(rawn) <= 40 and len(rawe) <= 40:
            mem = H.edges.members(dtype=dict)
            if list(mem) != list(rawe) or any(set(mem[e]) != set(rawe[e]) for e in rawe):
                anom.append("view:members!=raw")
            ms = H.nodes.memberships()
            if list(ms) != list(rawn) or any(set(ms[n]) != set(rawn[n]) for n in rawn):
                anom.append("view:memberships!=raw")
    except Exception as ex:
        anom.append(f"view:raises:{type(ex).__name__}")
    for seq, what in ((nodes, "node"), (edges, "edge"), (nak, "nattr"), (eak, "eattr")):
        real = [x for x in seq if x != UNKNOWN]
        if len(set(real)) != len(real):
            anom.append(f"ambiguous-{what}-labels")
    j = {
        "nodes": nodes, "edges": edges, "n2e": n2e, "e2n": e2n,
        "nak": nak, "eak": eak, "nattr": nattr, "eattr": eattr, "gattr": gattr,
        "uid": peek_uid(H), "frozen": bool(H.is_frozen),
    }
    return j, sorted(set(anom))


# ---------------------------------------------------------------------------
# building a state (S->C): canonical builder, verified by the caller through proj()
# ---------------------------------------------------------------------------
def build(j, g, cls=xgi.Hypergraph):
    """Canonical builder: public calls only, except for the id counter, which is set
    directly.  The caller verifies the result through proj() before using it."""
    H = cls()
    for n, a in zip(j["nak"], j["nattr"]):
        H.add_node(g.node(n), **g.attrs(a, "n"))
    with warnings.catch_warnings():
        warnings.simplefilter("ignore")
        for e, mem, a in zip(j["edges"], j["e2n"], j["eattr"]):
            H.add_edge([g.node(n) for n in mem], idx=g.edge(e), **g.attrs(a, "e"))
    for k, v in g.attrs(j["gattr"], "g").items():
        H[k] = v
    H._edge_uid = itertools.count(j["uid"])
    if j["frozen"]:
        H.freeze()
    return H


# ---------------------------------------------------------------------------
# execution of an abstract op
# ---------------------------------------------------------------------------
ALIAS = "__caller_owned__"  # what the caller puts into its own containers after the call
_HANDED = []  # mutable containers handed to the library during the current call


def _present(seq, rng):
    """how a member collection is handed to the library (never reaches TLC).  A caller may reuse one
    object for equal collections of one call, and goes on using (and changing) its own containers after
    the call: nothing of that may show in the network."""
    seq = list(seq)
    r = rng.random()
    if r < 0.2:
        for c in _HANDED:  # the same object again
            try:
                if (isinstance(c, list) and c == seq) or (isinstance(c, set) and len(c) == len(seq) and c == set(seq)):
                    return c
            except TypeError:
                pass
    out = None
    if r < 0.5:
        out = list(seq)
    elif r < 0.62:
        return tuple(seq)
    elif r < 0.7:
        return iter(list(seq))  # a one-shot iterator is an iterable too
    else:
        try:
            s = set(seq)
            if len(s) == len(seq):
                out = s
        except TypeError:
            pass
    if out is None:
        out = list(seq)
    _HANDED.append(out)
    return out


def present_ids(seq, rng):
    """how a bunch of ids is handed to a bulk call: any iterable, in this order (one-shot iterators and
    generators are iterables too; a dict's key view when the ids are distinct)"""
    seq = list(seq)
    r = rng.random()
    if r < 0.45:
        return seq
    if r < 0.6:
        return tuple(seq)
    if r < 0.75:
        return iter(seq)
    if r < 0.9:
        return (x for x in seq)
    try:
        d = dict.fromkeys(seq)
        if len(d) == len(seq):
            return d.keys()
    except TypeError:
        pass
    return seq


def begin_call():
    del _HANDED[:]


def end_call():
    """the caller changes the containers it handed over"""
    for c in _HANDED:
        if isinstance(c, set):
            c.add(ALIAS)
        elif isinstance(c, list):
            c.append(ALIAS)
    del _HANDED[:]


def classify(ex):
    """result class of a raising call: the library's own error type, or the builtin
    exception family"""
    from xgi.exception import IDNotFound

    if isinstance(ex, (XGIError, IDNotFound)):
        return "liberr"
    for base in (TypeError, ValueError, KeyError, IndexError, AttributeError, StopIteration,
                 RecursionError, ZeroDivisionError, AssertionError):
        if isinstance(ex, base):
            return base.__name__
    return type(ex).__name__


def call(H, op, g, rng=None):
    """Execute op on H.  Returns (res, nwarn, new_gamma)."""
    rng = rng or random.Random(0)
    name = op["name"]
    newg = g
    N = g.node
    E = g.edge
    A = g.attrs

    def members(m):
        return _present([N(x) for x in m], rng)

    def odd(d, last):
        """attribute entries that are not dicts (op.b2: key/value pairs; op.b4: None for the last item)"""
        if op["b4"] and last:
            return None
        return list(d.items()) if op["b2"] else d

    def ebunch(fmt, items):
        out = []
        for it in items:
            m = members(it["m"])
            if fmt == 1:
                out.append(m)
            elif fmt == 2:
                out.append((m, E(it["id"])))
            elif fmt == 3:
                out.append((m, odd(A(it["a"], "e"), it is items[-1])))
            elif fmt == 4:
                out.append((m, E(it["id"]), odd(A(it["a"], "e"), it is items[-1])))
        if fmt == 5:
            return {E(it["id"]): members(it["m"]) for it in items}
        return out if rng.random() < 0.7 else iter(out)

    begin_call()
    with warnings.catch_warnings(record=True) as wlist:
        warnings.simplefilter("always")
        try:
            if name == "add_node":
                H.add_node(N(op["n"]), **A(op["a"], "n"))
            elif name == "add_nodes_from":
                if op["fmt"] == 1:
                    arg = [N(it["id"]) for it in op["items"]]
                else:
                    arg = [(N(it["id"]), ([5] if (op["b4"] and it is op["items"][-1]) else
                                         list(A(it["a"], "n").items()) if op["b2"] else A(it["a"], "n"))) for it in op["items"]]
                H.add_nodes_from(present_ids(arg, rng) if op["fmt"] == 1 else (arg if rng.random() < 0.6 else iter(arg)),
                                 **A(op["a"], "n"))
            elif name == "remove_node":
                H.remove_node(N(op["n"]), strong=op["b1"], remove_empty=op["b2"])
            elif name == "remove_nodes_from":
                H.remove_nodes_from(present_ids([N(x) for x in op["ns"]], rng), strong=op["b1"], remove_empty=op["b2"])
            elif name in ("set_node_attributes", "set_edge_attributes"):
                tbl = "n" if name == "set_node_attributes" else "e"
                L = N if tbl == "n" else E
                f = getattr(H, name)
                fmt = op["fmt"]
                from .gamma import ATTR_KEYS

                if fmt == 1:
                    f(g.attr_value(op["v"], tbl), name=ATTR_KEYS[op["k"]])
                elif fmt == 2:
                    f({L(i): g.attr_value(v, tbl) for i, v in op["kv"]}, name=ATTR_KEYS[op["k"]])
                elif fmt == 3:
                    f({L(i): A(a, tbl) for i, a in op["kd"]})
                else:
                    f(5)
            elif name == "add_edge":
                H.add_edge(members(op["m"]), idx=E(op["id"]), **A(op["a"], "e"))
            elif name == "add_edges_from":
                H.add_edges_from(ebunch(op["fmt"], op["items"]), **A(op["a"], "e"))
            elif name == "add_weighted_edges_from":
                from .gamma import ATTR_KEYS

                eb = [list(N(x) for x in it["m"]) + [g.attr_value(it["w"], "e")] for it in op["items"]]
                H.add_weighted_edges_from(eb, weight=ATTR_KEYS[op["k"]], **A(op["a"], "e"))
            elif name == "remove_edge":
                H.remove_edge(E(op["e"]))
            elif name == "remove_edges_from":
                H.remove_edges_from(present_ids([E(x) for x in op["ns"]], rng))
            elif name == "add_node_to_edge":
                H.add_node_to_edge(E(op["e"]), N(op["n"]))
            elif name == "remove_node_from_edge":
                H.remove_node_from_edge(E(op["e"]), N(op["n"]), remove_empty=op["b1"])
            elif name == "double_edge_swap":
                H.double_edge_swap(N(op["n"]), N(op["n2"]), E(op["e"]), E(op["e2"]))
            elif name == "random_edge_shuffle":
                H.random_edge_shuffle(E(op["e"]), E(op["e2"]))
            elif name == "clear":
                H.clear(remove_net_attr=op["b1"])
            elif name == "clear_edges":
                H.clear_edges()
            elif name == "update":
                kw = {}
                if op["ns"]:
                    kw["nodes"] = [N(x) for x in op["ns"]]
                if op["items"]:
                    kw["edges"] = ebunch(op["fmt"], op["items"])
                    if not isinstance(kw["edges"], (list, dict)):
                        kw["edges"] = list(kw["edges"])
                H.update(**kw)
            elif name == "merge_duplicate_edges":
                from .gamma import ATTR_KEYS

                H.merge_duplicate_edges(
                    rename=op["s1"], merge_rule=op["s2"],
                    multiplicity=ATTR_KEYS[op["k"]] if op["k"] else None,
                )
            elif name == "cleanup":
                r = H.cleanup(isolates=op["b1"], singletons=op["b2"], multiedges=op["b3"],
                              connected=op["b4"], relabel=op["b5"], in_place=True)
                if op["b5"]:
                    newg = g.after_relabel()
            elif name == "convert_labels_to_integers":
                xgi.convert_labels_to_integers(H, in_place=True)
                newg = g.after_relabel()
            elif name == "largest_connected_hypergraph":
                xgi.largest_connected_hypergraph(H, in_place=True)
            elif name == "set_net_attr":
                from .gamma import ATTR_KEYS

                H[ATTR_KEYS[op["k"]]] = g.attr_value(op["v"], "g")
            elif name == "freeze":
                H.freeze()
            else:
                raise NotImplementedError(name)
            res = "ok"
        except NotImplementedError:
            raise
        except BaseException as ex:  # noqa: BLE001 - every exception is a result
            if isinstance(ex, (KeyboardInterrupt, SystemExit)):
                raise
            res = classify(ex)
    end_call()
    return res, len(wlist), newg
