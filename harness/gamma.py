"""Concretization maps (gamma): abstract ids of the specification <-> Python labels.

Abstract side (see spec/XgiBase.tla): nodes are small ints (None = -1); edge ids are
ints with ranges 0..99 integer-like (their numeric value matters to the id counter, so
gamma keeps the value: int / np.int64 / float(k)), 100..199 non-numeric labels (strings),
>= 1000 tuple ids produced by merge_duplicate_edges(rename="tuple").
Attribute keys are small ints, attribute values tagged int tuples.
"""
import numpy as np

# 5-7: attribute names that are also parameter names of the adding methods (set only through the setters)
# 8: a name that is also a parameter of the class constructors; 10: a name that is not a string
ATTR_KEYS = {1: "color", 2: "wt", 3: "mult", 4: "weight", 5: "idx", 6: "members", 7: "node", 8: "incoming_data", 9: "label",
             10: ("layer", 1)}
ATTR_KEYS_INV = {v: k for k, v in ATTR_KEYS.items()}

# labels with characters that str.splitlines / str.split() treat as separators but "\n"-based line
# reading does not (only used with explicit delimiters)
EXOTIC = ["a\u2028b", "New York", "p\rq", "x\x85y", "m\x0cn", "t\u2029u", "v\x0bw", "s\x1ct"]
NUMSTR = ["10", "2", "33", "4", "100", "7", "21", "3"]
UNKNOWN = -2  # a label the map cannot invert (reported as an anomaly)


def _bit(i):
    return i if i < 100 else 20 + (i - 100)


class Lbl:
    """a label that is hashable only by identity (an ordinary user object)"""
    __slots__ = ("k",)

    def __init__(self, k):
        self.k = k

    def __repr__(self):
        return f"Lbl({self.k})"

    def __reduce__(self):  # a pickle round trip finds the same object again (as for enum members) ...
        return (lbl, (self.k,))

    def __deepcopy__(self, memo):  # ... but deepcopy makes a clone, as for any ordinary object
        c = Lbl(self.k)
        memo[id(self)] = c
        return c


_LBL = {}


def lbl(k):
    if k not in _LBL:
        _LBL[k] = Lbl(k)
    return _LBL[k]


class Gamma:
    """node_kind: ints | shift | str | npint | tuple ; edge_kind: int | npint | intfloat"""

    def __init__(self, node_kind="ints", edge_kind="int"):
        self.node_kind = node_kind
        self.edge_kind = edge_kind
        self.relabelled = False  # after convert_labels_to_integers: identity ints
        self.prev = None  # gamma in force before the last relabelling (decodes 'label')

    # -- identity ------------------------------------------------------------
    @property
    def name(self):
        return f"{self.node_kind}/{self.edge_kind}" + ("+relabelled" if self.relabelled else "")

    def clone(self):
        g = Gamma(self.node_kind, self.edge_kind)
        g.relabelled = self.relabelled
        g.prev = self.prev
        return g

    def after_relabel(self):
        g = Gamma("ints", "int")
        g.relabelled = True
        p = self.clone()
        g.prev = p
        return g

    # -- nodes ---------------------------------------------------------------
    def node(self, k):
        if k == -1:
            return None
        nk = self.node_kind
        if nk == "ints":
            return int(k)
        if nk == "shift":
            return int(k) + 10
        if nk == "str":
            return f"n{k}"
        if nk == "npint":
            return np.int64(k)
        if nk == "tuple":
            return (int(k), "a")
        if nk == "descset":  # ints whose python-set iteration order is the reverse of their sorted order
            return 8 * (7 - int(k)) + int(k)
        if nk == "collide":  # ints that collide in small hash tables: set order depends on insertion order
            return 8 * int(k)
        if nk == "floatnode":
            return float(k)
        if nk == "exotic":
            return EXOTIC[k] if k < len(EXOTIC) else f"z{k}\x1ey"
        if nk == "numstr":  # strings that look like numbers: lexicographic and numeric order differ
            return NUMSTR[k] if k < len(NUMSTR) else str(1000 + k)
        if nk == "mixed":  # numbers and strings together (only for operations that never compare labels)
            return int(k) if k % 2 == 0 else f"n{k}"
        if nk == "negint":  # negative ints: hash(-1) == hash(-2) in CPython
            return -(int(k) + 1)
        if nk == "bigint":  # a fresh int object at every occurrence (equal, not identical)
            return int(str(1000 + int(k)))
        if nk == "obj":  # hashable by identity only: the same object at every occurrence
            return lbl(int(k))
        raise ValueError(nk)

    def inv_node(self, lab):
        if lab is None:
            return -1
        nk = self.node_kind
        try:
            if nk in ("ints", "npint"):
                if isinstance(lab, (int, np.integer)) and not isinstance(lab, bool):
                    return int(lab)
            elif nk == "shift":
                if isinstance(lab, (int, np.integer)) and not isinstance(lab, bool):
                    return int(lab) - 10
            elif nk == "str":
                if isinstance(lab, str) and lab[:1] == "n":
                    return int(lab[1:])
            elif nk == "tuple":
                if isinstance(lab, tuple) and len(lab) == 2 and lab[1] == "a":
                    return int(lab[0])
            elif nk == "descset":
                if isinstance(lab, (int, np.integer)) and not isinstance(lab, bool):
                    return int(lab) % 8
            elif nk == "collide":
                if isinstance(lab, (int, np.integer)) and not isinstance(lab, bool) and int(lab) % 8 == 0:
                    return int(lab) // 8
            elif nk == "floatnode":
                if isinstance(lab, float) and lab.is_integer():
                    return int(lab)
            elif nk == "exotic":
                if isinstance(lab, str):
                    return EXOTIC.index(lab) if lab in EXOTIC else int(lab[1:-2])
            elif nk == "numstr":
                if isinstance(lab, str):
                    return NUMSTR.index(lab) if lab in NUMSTR else int(lab) - 1000
            elif nk == "negint":
                if isinstance(lab, (int, np.integer)) and not isinstance(lab, bool) and int(lab) < 0:
                    return -int(lab) - 1
            elif nk == "bigint":
                if isinstance(lab, (int, np.integer)) and not isinstance(lab, bool) and int(lab) >= 1000:
                    return int(lab) - 1000
            elif nk == "obj":
                if isinstance(lab, Lbl):
                    return int(lab.k)
            elif nk == "mixed":
                if isinstance(lab, str) and lab[:1] == "n" and int(lab[1:]) % 2 == 1:
                    return int(lab[1:])
                if isinstance(lab, (int, np.integer)) and not isinstance(lab, bool) and int(lab) % 2 == 0:
                    return int(lab)
        except (ValueError, TypeError):
            pass
        return UNKNOWN

    # -- edges ---------------------------------------------------------------
    def edge(self, k):
        if k == -1:
            return None
        if k >= 1000:
            bits = k - 1000
            ids = [i for i in list(range(0, 20)) + list(range(100, 110)) if bits >> _bit(i) & 1]
            return tuple(sorted((self.edge(i) for i in ids), key=_sortkey))
        if k >= 100:
            return f"e{k}"
        ek = self.edge_kind
        if ek == "int":
            return int(k)
        if ek == "npint":
            return np.int64(k)
        if ek == "intfloat":
            return float(k)
        raise ValueError(ek)

    def inv_edge(self, lab):
        if lab is None:
            return -1
        try:
            if isinstance(lab, tuple):
                ks = [self.inv_edge(x) for x in lab]
                if all((0 <= k < 20) or (100 <= k < 110) for k in ks) and len(set(ks)) == len(ks):
                    return 1000 + sum(1 << _bit(k) for k in ks)
                return UNKNOWN
            if isinstance(lab, str):
                if lab[:1] == "e" and 100 <= int(lab[1:]) < 1000:
                    return int(lab[1:])
                return UNKNOWN
            if isinstance(lab, bool):
                return UNKNOWN
            if isinstance(lab, (int, np.integer)):
                return int(lab) if 0 <= int(lab) < 100 else UNKNOWN
            if isinstance(lab, float) and lab.is_integer() and 0 <= lab < 100:
                return int(lab)
        except (ValueError, TypeError):
            pass
        return UNKNOWN

    # -- attributes ------------------------------------------------------------
    def attr_value(self, v, table):
        """abstract tagged tuple -> python value"""
        tag = v[0]
        if tag == 0:
            return int(v[1])
        if tag == 1:
            return [int(x) for x in v[1:]]
        if tag == 2:
            return None
        if tag == 3:
            return {None if x == -1 else int(x) for x in v[1:]}
        if tag == 4:
            return self.node(v[1]) if table == "n" else self.edge(v[1])
        raise ValueError(v)

    def attrs(self, aj, table="n"):
        """J form [[k, v], ...] -> python dict"""
        out = {}
        for k, v in aj:
            if k == 9 and table in ("n", "e") and v[0] == 3:  # merged 'label' records: a set of labels
                lab = self.node if table == "n" else self.edge
                out[ATTR_KEYS[k]] = {lab(x) for x in v[1:]}
            else:
                out[ATTR_KEYS[k]] = self.attr_value(v, table)
        return out

    def inv_attr_value(self, key, val, table):
        if key == "label" and table in ("n", "e"):
            g = self.prev if self.prev is not None else self
            inv = g.inv_node if table == "n" else g.inv_edge
            if val is None:
                return [2]
            if isinstance(val, (set, frozenset)):
                return [3] + sorted(inv(x) for x in val)
            return [4, inv(val)]
        if val is None:
            return [2]
        if isinstance(val, bool):
            return [7, int(val)]
        if isinstance(val, (int, np.integer)):
            return [0, int(val)]
        if isinstance(val, list) and all(isinstance(x, (int, np.integer)) for x in val):
            return [1] + [int(x) for x in val]
        if isinstance(val, (set, frozenset)) and all(
            x is None or isinstance(x, (int, np.integer)) for x in val
        ):
            return [3] + sorted(-1 if x is None else int(x) for x in val)
        return [8, abs(hash(repr(val))) % 100000]

    def inv_attrs(self, d, table="n"):
        out = []
        for key, val in d.items():
            k = ATTR_KEYS_INV.get(key, 99)
            out.append([k, self.inv_attr_value(key, val, table)])
        out.sort(key=lambda p: p[0])
        return out


def _sortkey(x):
    return (0, x) if not isinstance(x, str) else (1, x)


# families quantified over by the drivers (order preserving within each kind, so that
# "smallest id" means the same thing on both sides)
FAMILIES = [
    ("ints", "int"),
    ("shift", "int"),
    ("str", "int"),
    ("npint", "npint"),
    ("ints", "intfloat"),
]


def family(i):
    nk, ek = FAMILIES[i % len(FAMILIES)]
    return Gamma(nk, ek)
