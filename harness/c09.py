"""C09: structural measures are invariant under relabelling and insertion order."""
import json
import math
import random
import warnings
from concurrent.futures import ProcessPoolExecutor

import xgi

from . import common, hg, nets, obscore
from .c12 import frac
from .common import log
from .gamma import Gamma

NANI = 1 << 29  # integer code of NaN / undefined for the scaled values
FAMS = [("ints", "int"), ("shift", "int"), ("str", "int"), ("npint", "npint"), ("descset", "int"), ("collide", "int"), ("bigint", "int"), ("negint", "int")]


def scaled(x):
    x = float(x)
    if math.isnan(x) or math.isinf(x):
        return NANI
    return int(round(x * 1e7))


def bundle(H, g, name):
    iN, iE = g.inv_node, g.inv_edge
    errs = []

    def get(what, f, default):
        with warnings.catch_warnings():
            warnings.simplefilter("ignore")
            try:
                return f()
            except Exception as ex:  # noqa: BLE001
                errs.append(f"{what}.{hg.classify(ex)}({name})")
                return default

    def pernode(d, conv):
        return sorted([iN(n), conv(v)] for n, v in d.items())

    b = {"name": name}
    b["and"] = get("average_neighbor_degree", lambda: pernode(H.nodes.average_neighbor_degree.asdict(), frac), [])
    b["cc"] = get("clustering_coefficient", lambda: pernode(xgi.clustering_coefficient(H), frac), [])
    b["lcc"] = get("local_clustering_coefficient", lambda: pernode(xgi.local_clustering_coefficient(H), frac), [])
    b["tncc"] = get("two_node_clustering_coefficient", lambda: pernode(xgi.two_node_clustering_coefficient(H), frac), [])
    b["dens"] = get("density", lambda: frac(xgi.density(H)), [1, 0])
    # summaries of the degree / size statistics (ties must not be broken by insertion order)
    b["summ"] = get("stat summaries", lambda: [scaled(H.nodes.degree.mode()), scaled(H.edges.size.mode()), scaled(H.nodes.degree.median()),
                                               scaled(H.nodes.degree.max()), scaled(H.edges.size.min()),
                                               scaled(H.nodes.degree(order=1).mean()), scaled(H.nodes.degree(order=1).mode())]
                    if H.num_edges else [], [-1])
    b["idens"] = get("incidence_density", lambda: frac(xgi.incidence_density(H)), [1, 0])
    b["comps"] = get("connected_components", lambda: [sorted(iN(n) for n in c) for c in xgi.connected_components(H)], [])
    b["max"] = get("maximal", lambda: sorted(iE(e) for e in H.edges.maximal()), [])
    b["dups"] = get("duplicates", lambda: sorted(iE(e) for e in H.edges.duplicates()), [])
    import math as _m

    b["dist"] = get("shortest_path_length", lambda: sorted(
        [iN(s_), sorted([iN(t_), (-1 if _m.isinf(d) else int(d))] for t_, d in dd.items())] for s_, dd in xgi.shortest_path_length(H)), [])

    def degvec():
        K, rd = xgi.degree_matrix(H, index=True)
        lab = (lambda i: rd[i]) if rd else (lambda i, ns=list(H.nodes): ns[i])  # no edges: empty index map
        return sorted([iN(lab(i)), int(K[i])] for i in range(len(K)))
    b["degm"] = get("degree_matrix", degvec, [])

    # weighted normalised Laplacian, edge weights attached to the abstract edges: entries by node pair
    def nlw():
        if not H.num_edges or any(len(H._node[n]) == 0 for n in H.nodes) or any(len(m) == 0 for m in H._edge.values()):
            return []
        K = H.copy()
        for e in K.edges:
            K.edges[e]["weight"] = 1 + (iE(e) % 3)
        L, rd = xgi.normalized_hypergraph_laplacian(K, weighted=True, sparse=False, index=True)
        L = L if hasattr(L, "shape") and not hasattr(L, "toarray") else L.toarray()
        return sorted([iN(rd[i]), iN(rd[j_]), scaled(L[i][j_])] for i in range(len(rd)) for j_ in range(len(rd)))
    b["nlapw"] = get("normalized_hypergraph_laplacian(weighted)", nlw, [[-1, -1, 0]])
    # simpliciality (defined without repeated edges; orderable labels): compared across realisations
    norep = len({frozenset(m) for m in H._edge.values()}) == H.num_edges
    b["simp"] = [scaled(get(f, lambda f=f: getattr(xgi, f)(H), float("nan"))) if norep else NANI
                 for f in ("edit_simpliciality", "face_edit_simpliciality", "simplicial_fraction")]
    b["sed"] = scaled(get("simplicial_edit_distance", lambda: xgi.simplicial_edit_distance(H, normalize=False), float("nan"))) \
        if norep else NANI
    # layer 2: no TLA+ definition; compared across realisations.  Defined only on suitable inputs.
    connected = xgi.is_connected(H)
    # defined whenever some edge joins two nodes (isolated nodes get zero, Note [2] of its documentation)
    b["katz"] = get("katz_centrality", lambda: pernode(xgi.katz_centrality(H), scaled), []) \
        if any(len(m) >= 2 for m in H._edge.values()) else []
    sizes = {len(m) for m in H._edge.values()}
    uniform = len(sizes) == 1 and min(sizes) >= 2
    b["dassort"] = get("dynamical_assortativity", lambda: scaled(xgi.dynamical_assortativity(H)), NANI) \
        if (uniform and connected and H.num_edges >= 2) else NANI
    b["assort"] = get("degree_assortativity", lambda: scaled(xgi.degree_assortativity(H, kind="uniform", exact=True)), NANI) \
        if (min(sizes | {2}) >= 2 and H.num_edges >= 2) else NANI
    return b, errs


def _worker(args):
    states, base, seed_ = args
    out = []
    for k, j in enumerate(states):
        if not j["nodes"]:
            continue
        rng = random.Random(seed_ * 472882027 + base + k)
        real, errs = [], []
        variants = obscore.edge_id_variants(j, rng)
        NEW = 60  # abstract id of one more edge, added with an automatic id after construction
        extra = sorted(j["nodes"][:2])
        for ri in range(8):
            g = Gamma(*FAMS[ri % len(FAMS)])
            vname, emap = variants[ri % len(variants)]
            if ri % 2 == 1:
                # built in one bulk call from a dict whose keys arrive in shuffled order
                H = xgi.Hypergraph()
                ns = list(j["nodes"])
                rng.shuffle(ns)
                H.add_nodes_from([g.node(n) for n in ns])
                items = list(zip(j["edges"], j["e2n"]))
                rng.shuffle(items)
                H.add_edges_from({g.edge(emap.get(e, e)): [g.node(n) for n in m] for e, m in items})
                vname += "/bulk"
            else:
                H = obscore.realise(j, g, rng, shuffle=ri > 0, edge_id_map=emap)
            H.add_edge([g.node(n) for n in extra])
            inv = {v: k2 for k2, v in emap.items()}
            known = set(emap.values()) if emap else set(j["edges"])

            class G2:
                name = f"{g.name}/{vname}"

                def inv_node(self, x, g=g):
                    return g.inv_node(x)

                def inv_edge(self, x, g=g, inv=inv, known=known):
                    try:
                        a = g.inv_edge(x)
                    except Exception:  # noqa: BLE001
                        return NEW
                    if a in known:
                        return inv.get(a, a)
                    return NEW
            b, e = bundle(H, G2(), f"{g.name}/{vname}")
            real.append(b)
            errs += e
        st = json.loads(json.dumps(j))
        st["edges"].append(NEW)
        st["e2n"].append(extra)
        st["eak"].append(NEW)
        st["eattr"].append([])
        st["n2e"] = [es + ([NEW] if n in extra else []) for n, es in zip(st["nodes"], st["n2e"])]
        # the same maximal simplices as a simplicial complex: one by one, in one bulk call, members and
        # simplices in other orders - always the same complex
        scs = []
        for ri in range(4):
            g = Gamma(*FAMS[ri % len(FAMS)])
            S = xgi.SimplicialComplex()
            ms = [list(m) for m in j["e2n"]]
            if ri:
                rng.shuffle(ms)
                for m in ms:
                    rng.shuffle(m)
            try:
                with warnings.catch_warnings():
                    warnings.simplefilter("ignore")
                    if ri % 2 == 0:
                        for m in ms:
                            S.add_simplex([g.node(n) for n in m])
                    else:
                        S.add_simplices_from([[g.node(n) for n in m] for m in ms])
                scs.append(sorted(sorted(g.inv_node(n) for n in mem) for mem in S.edges.members()))
            except Exception as ex:  # noqa: BLE001
                errs.append(f"SimplicialComplex.{hg.classify(ex)}({g.name})")
                scs.append([[-7]])
        out.append({"rid": f"s{base + k}", "what": f"shape {base + k} x 8 realisations", "st": st, "real": real, "scs": scs,
                    "anom": sorted(set(errs))})
    return out


BUD = {"quick": {"shapes": {"NN": 4, "ME": 3, "MinSize": 1}, "max_shapes": 500},
       "thorough": {"shapes": {"NN": 5, "ME": 4, "MinSize": 1}, "max_shapes": 20000}}


def run(tier, seed_):
    t = common.Timer()
    b = BUD[tier]
    shapes, mc = obscore.enumerate_shapes("MC_ShapesH", b["shapes"], max_states=b["max_shapes"])
    jobs = common.NCPU
    recs = []
    with ProcessPoolExecutor(max_workers=jobs) as ex:
        for part in ex.map(_worker, [(shapes[i::jobs], i * 100003, seed_) for i in range(jobs) if shapes[i::jobs]]):
            recs += part
    log(f"[C09] {len(recs)} abstract networks x 8 realisations ({t():.0f}s)")

    def selftest(records, bad):
        r0 = next(r for r in records if r["rid"] not in bad and len(r["real"][1]["lcc"]) >= 2
                  and any(v[1][0] != 0 for v in r["real"][1]["lcc"]))
        m = json.loads(json.dumps(r0))
        m["rid"] = "selftest"
        l = m["real"][1]["lcc"]
        l[0][1], l[1][1] = l[1][1], l[0][1]  # values attached to the wrong labels
        v = common.validate_records([m], "TraceC09")
        if l[0][1] != l[1][1] and "C09:local_clustering_coefficient" not in v.get("selftest", []):
            raise common.MachineryError(f"C09 self-test did not fire: {v}")
        return {"corrupted_records": 1, "rejected": 1}

    samples = [{"rid": r["rid"], "members": r["st"]["e2n"], "realisations": [x["name"] for x in r["real"]],
                "local_clustering": r["real"][0]["lcc"], "katz": r["real"][0]["katz"]}
               for r in recs[:: max(1, len(recs) // 4)]][:4]
    layer2 = sum(1 for r in recs if r["real"][0]["katz"]) , sum(1 for r in recs if r["real"][0]["assort"] != NANI)
    return obscore.report(
        "C09", tier, seed_, t, records=recs, trace_module="TraceC09", mc_stats=mc,
        rule="inputs = TLC-enumerated hypergraphs; each is realised 4 times (ints in canonical order; shifted ints, "
             "strings, numpy ints with permuted / gapped / string edge ids and shuffled node, edge and member insertion "
             "orders); measures are mapped back to abstract ids; distinct = (#nodes, sorted edge sizes)",
        samples=samples, selftest=selftest,
        class_of=lambda r: (len(r["st"]["nodes"]), tuple(sorted(len(m) for m in r["st"]["e2n"]))),
        extra={"layer1_defined_in_TLA": ["average_neighbor_degree", "clustering_coefficient", "local_clustering_coefficient",
                                         "two_node_clustering_coefficient", "density", "incidence_density", "components",
                                         "maximal", "duplicates (count)"],
               "layer2_cross_realisation_only": ["katz_centrality", "degree_assortativity(exact)", "dynamical_assortativity"],
               "layer2_networks_with_katz": layer2[0], "layer2_networks_with_assortativity": layer2[1],
               "elsewhere": "degree / size statistics: C06; path lengths: C14; simpliciality: C15; matrices: C12 - all "
                            "of them on relabelled, shuffled realisations"},
        assumptions=["layer 2 is weaker: values are not specified, only compared across realisations (tolerance 5e-7)"])
