"""The pipeline shared by the state-machine properties (C01-C05, C18 ...):

 1. TLC explores the exhaustive model of the class to a fixpoint, checking the
    specification's own invariants / action properties, and emits the alphabet and every
    distinct reachable state as JSON.
 2. S->C: (state, op) inputs enumerated by TLC are built in the real object (the start
    state is used only once its projection equals what TLC printed), the real call is
    made, and the step is logged.
 3. C->S: random histories with the full argument zoo run on the real object, logging one
    record per call (also when it raises).
 4. All records go back to TLC (trace specification re-using the same operators): it
    decides membership of each step in the admitted outcomes and evaluates every
    invariant on every logged state.  Verdict clauses carry the owning property.
"""
import hashlib
import json
import os
import random
import tempfile
import time
from collections import Counter
from concurrent.futures import ProcessPoolExecutor

from . import common
from .common import MachineryError, log


class Kit:
    """Everything class specific."""

    def __init__(self, name, *, mc_module, trace_module, universes, invariants, properties,
                 proj, build, call, gen, cls, families, nn=6, obs=None):
        self.name = name
        self.mc_module = mc_module
        self.trace_module = trace_module
        self.universes = universes  # tier -> constants dict
        self.invariants = invariants
        self.properties = properties
        self.proj, self.build, self.call, self.gen, self.cls = proj, build, call, gen, cls
        self.families = families
        self.nn = nn
        self.obs = obs


def cfg_text(constants, invariants, properties, emit):
    lines = ["SPECIFICATION " + ("SpecE" if emit else "Spec"), "CONSTANTS"]
    for k, v in constants.items():
        lines.append(f"  {k} = {v}")
    lines.append(f"  Emit = {'TRUE' if emit else 'FALSE'}")
    lines += ["CONSTRAINT Bounded"]
    if emit:
        lines.append("INVARIANT EmitState")
    else:
        lines.append("VIEW View")
        lines += [f"INVARIANT {i}" for i in invariants]
        lines += [f"PROPERTY {p}" for p in properties]
    lines.append("CHECK_DEADLOCK FALSE")
    return "\n".join(lines) + "\n"


def _tlc_cmd(module, cfg, md, workers, heap):
    return ["java", "-XX:+UseParallelGC", "-Xss64m", f"-Xmx{heap}", "-cp", common.TLA_CP, "tlc2.TLC", "-workers",
            str(workers), "-metadir", md, "-noGenerateSpecTE", "-config", cfg,
            os.path.join(common.SPEC, module + ".tla")]


def model_check(kit, tier, *, emit=True, workers=common.NCPU, timeout=7200, max_states=400000, ukey=None, heap=("5g", "3g")):
    """Run the exhaustive model (specification level check) and, concurrently, the emission
    run of the same graph.  Returns dict(states, transitions, depth, alphabet, states_file...)."""
    import subprocess
    import threading

    d = tempfile.mkdtemp(prefix="mc-", dir=common.scratch())
    t0 = time.time()
    cfg_c = os.path.join(d, "check.cfg")
    open(cfg_c, "w").write(cfg_text(kit.universes[ukey or tier], kit.invariants, kit.properties, False))
    out_c = os.path.join(d, "check.out")
    res = {}

    def run_check():
        with open(out_c, "w") as fh:
            subprocess.run(_tlc_cmd(kit.mc_module, cfg_c, os.path.join(d, "mc"), workers, heap[0]), stdout=fh,
                           stderr=subprocess.STDOUT, cwd=common.SPEC, timeout=timeout)

    th = threading.Thread(target=run_check)
    th.start()
    alphabet, nstates, states_file = None, 0, os.path.join(d, "states.ndjson")
    emitted_lines = 0
    if emit:
        cfg_e = os.path.join(d, "emit.cfg")
        open(cfg_e, "w").write(cfg_text(kit.universes[ukey or tier], (), (), True))
        p = subprocess.Popen(_tlc_cmd(kit.mc_module, cfg_e, os.path.join(d, "me"), max(2, workers // 2), heap[1]),
                             stdout=subprocess.PIPE, stderr=subprocess.STDOUT, cwd=common.SPEC, text=True,
                             bufsize=1 << 20)
        seen = set()
        tail = []
        with open(states_file, "w") as sf:
            for line in p.stdout:
                s = line.strip()
                if len(s) > 2 and s[0] == '"' and s[-1] == '"' and s[1] == "{":
                    emitted_lines += 1
                    h = hashlib.blake2b(s.encode(), digest_size=10).digest()
                    if h in seen:
                        continue
                    seen.add(h)
                    try:
                        obj = json.loads(json.loads(s))
                    except json.JSONDecodeError:
                        p.kill()
                        raise MachineryError("unparsable emission " + s[:200])
                    if obj.get("kind") == "alphabet":
                        alphabet = obj["ops"]
                    elif obj.get("kind") == "state" and nstates < max_states:
                        sf.write(json.dumps(obj["st"], separators=(",", ":")) + "\n")
                        nstates += 1
                else:
                    tail.append(line)
                    tail = tail[-60:]
        p.wait()
        etext = "".join(tail)
        if common.tlc_error(etext) or "distinct states found" not in etext:
            th.join()
            raise MachineryError(f"{kit.mc_module} emission run failed:\n" + etext[-3000:])
        if alphabet is None or nstates == 0:
            raise MachineryError("model emitted nothing")
    th.join()
    text = open(out_c).read()
    err = common.tlc_error(text)
    if err:
        raise MachineryError(f"{kit.mc_module}: TLC reports on the specification itself: {err}\n" + text[-4000:])
    gen, distinct, depth = common.tlc_stats(text)
    return {"transitions": gen, "states": distinct, "depth": depth, "alphabet": alphabet,
            "states_file": states_file, "emitted_states": nstates, "wall_s": time.time() - t0,
            "constants": kit.universes[ukey or tier]}


# ---------------------------------------------------------------------------
# S->C
# ---------------------------------------------------------------------------
_KITS = {}


def register(kit):
    _KITS[kit.name] = kit
    return kit


def _s2c_worker(args):
    kitname, jobs, seed_ = args
    kit = _KITS[kitname]
    rng = random.Random(seed_)
    recs = []
    for rid, st, op, fam in jobs:
        g = kit.families[fam % len(kit.families)]()
        if not in_domain(g, op):
            g = kit.families[0]()
        try:
            H = kit.build(st, g)
        except Exception as ex:  # noqa: BLE001
            recs.append({"rid": rid, "builderr": f"{type(ex).__name__}: {ex}"})
            continue
        pre, preanom = kit.proj(H, g)
        if preanom or pre != st:
            recs.append({"rid": rid, "builderr": "projection of built state differs", "want": st, "got": pre,
                         "anom": preanom, "fam": fam})
            continue
        res, nwarn, g2 = kit.call(H, op, g, rng)
        if res == "ok":
            g = g2
        post, postanom = kit.proj(H, g)
        rec = {"rid": rid, "gamma": g.name, "pre": pre, "preanom": preanom, "op": op, "res": res,
               "warn": nwarn, "post": post, "postanom": postanom}
        if kit.obs and not postanom:
            rec.update(kit.obs(H, g, post, rng))
        elif kit.obs:
            rec.update(kit.obs(None, g, {"nodes": [], "e2n": []}, rng))
        recs.append(rec)
    return recs


def s2c(kit, mc, *, budget, seed_, jobs=common.NCPU):
    """Replay (state, op) inputs enumerated by TLC into the implementation."""
    alphabet = mc["alphabet"]
    rng = random.Random(seed_)
    total_pairs = mc["emitted_states"] * len(alphabet)
    p = min(1.0, budget / max(1, total_pairs))
    work = []
    k = 0
    with open(mc["states_file"]) as fh:
        for si, line in enumerate(fh):
            st = json.loads(line)
            if p >= 1.0:
                ops = range(len(alphabet))
            else:
                n = len(alphabet) * p
                cnt = int(n) + (1 if rng.random() < n - int(n) else 0)
                ops = rng.sample(range(len(alphabet)), cnt) if cnt else ()
            for oi in ops:
                work.append((f"s{si}.{oi}", st, alphabet[oi], k))
                k += 1
    chunks = [work[i::jobs * 4] for i in range(jobs * 4)]
    recs = []
    with ProcessPoolExecutor(max_workers=jobs) as ex:
        for part in ex.map(_s2c_worker, [(kit.name, c, seed_ + i) for i, c in enumerate(chunks) if c]):
            recs += part
    builderr = [r for r in recs if "builderr" in r]
    recs = [r for r in recs if "builderr" not in r]
    traced = []
    if builderr:
        # The builder makes only documented calls (add_node, add_edge / add_simplices_from with explicit ids).
        # When their result is not the state TLC printed, the same calls are repeated one by one as ordinary
        # trace records: TLC then names the call that deviates.  If every traced call is accepted the
        # mismatch is the harness's own (counter assignment, projection): a machinery failure.
        seen = set()
        for r in builderr:
            if "want" not in r:
                continue
            key = json.dumps(r["want"], sort_keys=True)
            if key in seen or len(seen) >= 40:
                continue
            seen.add(key)
            traced += traced_build(kit, r["rid"], r["want"], r.get("fam", 0), rng)
    info = {"pairs_total": total_pairs, "pairs_replayed": len(recs), "exhaustive": p >= 1.0,
            "unrealised_states": len(builderr), "builderr_example": builderr[0] if builderr else None,
            "traced_build_rids": [r["rid"] for r in traced]}
    return recs + traced, info


def traced_build(kit, rid, st, fam, rng):
    """the builder's calls, one record each (abstract ops of the kit's alphabet)"""
    from .hg import item, mkop

    g = kit.families[fam % len(kit.families)]()
    empty = {k: ([] if isinstance(v, list) else v) for k, v in st.items()}
    empty["uid"], empty["frozen"] = 0, False
    H = kit.build(empty, g)
    ops = [mkop("add_node", n=n, a=a) for n, a in zip(st["nak"], st["nattr"])]
    if kit.name == "DH":
        from . import dhg

        for e, t, h, a in zip(st["edges"], st["tail"], st["head"], st["eattr"]):
            op = dhg.mkop("add_edge", m=t, id=e, a=a) if hasattr(dhg, "mkop") else mkop("add_edge", m=t, id=e, a=a)
            op["h"] = list(h)
            ops.append(op)
    elif kit.name == "SC":
        if st["edges"]:
            ops.append(mkop("add_simplices_from", fmt=4, n2=-1,
                            items=[item(m=m, id=e, a=a) for e, m, a in zip(st["edges"], st["e2n"], st["eattr"])]))
    else:
        ops += [mkop("add_edge", m=m, id=e, a=a) for e, m, a in zip(st["edges"], st["e2n"], st["eattr"])]
    out = []
    pre, preanom = kit.proj(H, g)
    for k, op in enumerate(ops):
        res, nwarn, g2 = kit.call(H, op, g, rng)
        if res == "ok":
            g = g2
        post, postanom = kit.proj(H, g)
        rec = {"rid": f"{rid}.build{k}", "gamma": g.name, "pre": pre, "preanom": preanom, "op": op, "res": res,
               "warn": nwarn, "post": post, "postanom": postanom}
        if kit.obs:
            rec.update(kit.obs(H if not postanom else None, g, post if not postanom else {"nodes": [], "e2n": []}, rng))
        out.append(rec)
        pre, preanom = post, postanom
    return out


# ---------------------------------------------------------------------------
# C->S
# ---------------------------------------------------------------------------
BULK_LIST_OPS = {"add_edges_from", "add_simplices_from", "add_weighted_edges_from", "add_weighted_simplices_from",
                 "add_nodes_from", "update"}


def in_domain(g, op):
    """The list formats of the bulk calls are told apart by looking into their first item; with labels
    that are strings *and* non-strings in one network (a 2-list starting with a string reads as
    (members, id)) they are ambiguous by construction, so such calls are outside the documented domain
    (the dict format, and every non-bulk call, stay inside)."""
    if getattr(g, "node_kind", "") != "mixed":
        return True
    return not (op["name"] in BULK_LIST_OPS and op.get("fmt", 0) != 5)


def domain_gen(gen, g):
    def f(rng, j, nn=6):
        for _ in range(30):
            op = gen(rng, j, nn)
            if in_domain(g, op):
                return op
        from .hg import mkop

        return mkop("add_node", n=rng.randrange(nn))
    return f


def freezing_gen(gen):
    """wrap a generator of random ops so that histories freeze the network at some point"""
    from .hg import mkop

    def g(rng, j, nn=6):
        if not j["frozen"] and rng.random() < 0.12:
            return mkop("freeze")
        return gen(rng, j, nn)
    return g


def scenarios(kitname):
    """scripted openings of some histories: states that random walks reach only rarely"""
    from .hg import item, mkop

    def bulk(fmt, triples, tail=()):
        """a bulk addition with explicit ids whose last item cannot be added (a None member): the call raises
        after some of its items were stored; automatic additions follow"""
        its = []
        for m, h, i in triples:
            it = item(m=m, id=i)
            it["h"] = list(h)
            its.append(it)
        add = "add_simplices_from" if kitname == "SC" else "add_edges_from"
        one = "add_simplex" if kitname == "SC" else "add_edge"
        return [mkop(add, fmt=fmt, items=its, **({"n2": -1} if kitname == "SC" else {}))] + [
            mkop(one, m=m, h=h, id=-1) for m, h in tail]

    autos = [([0, 1], [2]), ([1, 3], [0]), ([2, 4], [4]), ([5, 0], [1]), ([3, 4], [2])]
    raising = [
        bulk(2, [([0, 1], [2], 2), ([2, 3], [3], 4), ([1, -1], [0], 6)], autos),
        bulk(4, [([0, 1], [2], 3), ([1, 2], [0, 3], 1), ([4], [-1], 5)], autos),
        bulk(5, [([0, 1], [2], 1), ([2, 3], [1], 3), ([-1, 4], [0], 4)], autos),
    ]
    if kitname == "DH":
        A = lambda m, h, i: mkop("add_edge", m=m, h=h, id=i)  # noqa: E731
        return raising + [
            # a node on both sides, removed from one side, then weakly removed; ids used again
            [A([0, 1], [1, 2], 0), A([1], [1], 1), mkop("remove_node_from_edge", e=0, n=1, s1="in", b1=False),
             mkop("remove_node", n=1, b1=False, b2=False), A([3], [0], 1), A([2], [3], -1), A([0], [2], -1)],
            # strong removal, then the same ids and automatic ones
            [A([0, 1], [2], -1), A([2], [3, 4], -1), A([0], [4], 5), mkop("remove_node", n=2, b1=True),
             A([1], [3], 0), A([4], [0], -1), A([0], [1], -1)],
        ]
    if kitname == "SC":
        X = lambda m, i: mkop("add_simplex", m=m, id=i)  # noqa: E731
        return raising + [
            # explicit ids just ahead of the counter: the faces of the simplex take the automatic ids next to it
            [X([0, 1, 2], 1), X([2, 3], -1), X([3, 4, 5], 9), X([0, 5], -1), mkop("remove_simplex_id", e=1), X([0, 1, 2], 2)],
            [X([0, 1], -1), X([1, 2, 3], 4), X([0, 1, 2, 3], 7), mkop("remove_node", n=1), X([1, 2], 5), X([4, 5], -1)],
        ]
    if kitname != "H":
        return []
    A = lambda m, i: mkop("add_edge", m=m, id=i)  # noqa: E731
    M = lambda r, rule="first": mkop("merge_duplicate_edges", s1=r, s2=rule)  # noqa: E731
    return raising + [
        # merging under tuple ids twice: the second tuple id is already carried by the first merge result
        [A([1, 2], 0), A([1, 2], 1), M("tuple"), A([3, 4], 0), A([3, 4], 1), M("tuple")],
        [A([1, 2], 0), A([1, 2], 1), A([0, 5], 2), M("tuple"), A([3], 0), A([3], 1), M("tuple", "union")],
        # ids freed by a merge and used again
        [A([1, 2], 0), A([1, 2], 1), M("first"), A([2, 3], 1), A([2, 3], -1), M("new")],
        # removal, explicit id below the counter, automatic ids
        [A([0, 1], -1), A([1, 2], -1), A([2, 3], -1), mkop("remove_edge", e=1), A([4, 5], 1), A([4], -1),
         mkop("remove_node", n=4, b1=False), A([0, 4], -1)],
    ]


def _c2s_worker(args):
    kitname, hids, seed_, length, extra = args
    kit = _KITS[kitname]
    from . import drive_hg

    extra = dict(extra or {})
    gen = kit.gen
    if extra.pop("freeze", False):
        gen = freezing_gen(gen)

    out = []
    for hid in hids:
        rng = random.Random((seed_ << 20) + hid)
        g = kit.families[hid % len(kit.families)]()
        sc_ = scenarios(kit.name)
        start = sc_[hid % len(sc_)] if sc_ and hid < 4 * len(sc_) else ()
        out += drive_hg.run_history(f"{kit.name}{hid}", rng, length, gamma=g, nn=kit.nn, cls=kit.cls,
                                    call=kit.call, proj=kit.proj, gen=domain_gen(gen, g), obs=kit.obs, start_ops=start, **extra)
    return out


def c2s(kit, *, histories, length, seed_, jobs=common.NCPU, extra=None):
    ids = list(range(histories))
    chunks = [ids[i::jobs * 2] for i in range(jobs * 2)]
    recs = []
    with ProcessPoolExecutor(max_workers=jobs) as ex:
        for part in ex.map(_c2s_worker, [(kit.name, c, seed_, length, extra) for c in chunks if c]):
            recs += part
    return recs


# ---------------------------------------------------------------------------
# verdict handling
# ---------------------------------------------------------------------------
def op_digest(op):
    keep = {k: v for k, v in op.items() if v not in (-1, [], False, 0, "", [2])}
    return json.dumps(keep, sort_keys=True, separators=(",", ":"))


def shape_class(rec):
    """(pre-shape, op-kind, result): the equivalence class used for distinct_nontrivial"""
    pre = rec["pre"]
    sizes = tuple(sorted(len(m) for m in pre.get("e2n", pre.get("tail", []))))
    return (len(pre["nodes"]), sizes, rec["op"]["name"], rec["op"].get("fmt", 0), rec["res"],
            rec["pre"] != rec["post"])


def nontrivial(rec):
    return rec["res"] != "ok" or rec["pre"] != rec["post"]
