"""C13: boundary operators form a chain complex (spec/TraceC13.tla)."""
import json
import random
import warnings
from concurrent.futures import ProcessPoolExecutor

import numpy as np
import xgi

from . import common, hg, obscore
from .common import log
from .gamma import Gamma

FAMS = [("ints", "int"), ("str", "int"), ("mixed", "int"), ("numstr", "int"), ("shift", "intfloat"), ("mixed", "int"), ("numstr", "intfloat")]


# histories use the bulk list formats, which are ambiguous for labels mixing strings and numbers
HFAMS = [("ints", "int"), ("str", "int"), ("shift", "intfloat"), ("numstr", "int"), ("ints", "intfloat")]


class BigGamma:
    """plain integer labels of any size (instances beyond the bounded id universe)"""
    prev = None
    name = "bigints/int"

    def node(self, k):
        return int(k)

    def edge(self, k):
        return int(k)

    def inv_node(self, x):
        return int(x)

    def inv_edge(self, x):
        return int(x)

    def inv_attrs(self, d, table="n"):
        return []


def observe(tag, j, g, rng, n_orient, explicit=None):
    try:
        return _observe(tag, j, g, rng, n_orient, explicit)
    except Exception as ex:  # noqa: BLE001 - nothing the harness does with public calls may crash
        return [{"rid": f"{tag}.o0", "what": f"complex ({g.name}): building / copying it", "st": obscore_empty(), "B": [], "L": [],
                 "anom": [f"setup.{hg.classify(ex)}"]}]


def obscore_empty():
    return {"nodes": [], "edges": [], "n2e": [], "e2n": [], "nak": [], "eak": [], "nattr": [], "eattr": [], "gattr": [],
            "uid": 0, "frozen": False}


def _observe(tag, j, g, rng, n_orient, explicit=None):
    S = xgi.SimplicialComplex()
    order = list(j["nodes"])
    rng.shuffle(order)  # nodes are not created in label order
    S.add_nodes_from([g.node(n) for n in order])
    simplices = [[g.node(n) for n in m] for m in j["e2n"] if m]
    rng.shuffle(simplices)
    explicit = (rng.random() < 0.5) if explicit is None else explicit
    with warnings.catch_warnings():
        warnings.simplefilter("ignore")
        # one add_simplex per generator: the bulk formats are sniffed from the first item and are
        # ambiguous for two-element simplices with mixed label types
        for k, m in enumerate(simplices):
            if explicit:  # explicit simplex ids (strings and gapped ints)
                S.add_simplex(m, idx=g.edge(100 + k) if k % 2 else g.edge(3 + 4 * k))
            else:
                S.add_simplex(m)
    # a complex with a past: a refused addition, and the removal of a simplex (with everything above it)
    with warnings.catch_warnings():
        warnings.simplefilter("ignore")
        if rng.random() < 0.3 and len(order) >= 2:
            try:
                S.add_simplex([g.node(order[0]), g.node(order[1]), None])
            except Exception:  # noqa: BLE001
                pass
        if rng.random() < 0.4 and S.num_edges:
            low = sorted(S.edges, key=lambda e: (len(S._edge[e]), str(e)))
            try:
                S.remove_simplex_id(low[rng.randrange(min(3, len(low)))])
            except Exception:  # noqa: BLE001
                pass
    # the complex under test may be a copy / a constructor copy of the one that was built, and the one
    # that was built may be edited afterwards: the complex under test is still the complex described
    how = rng.choice(["built", "built", "copy", "constructor", "pickle"])
    if how != "built":
        import pickle

        S0 = S
        with warnings.catch_warnings():
            warnings.simplefilter("ignore")
            S = S0.copy() if how == "copy" else (xgi.SimplicialComplex(S0) if how == "constructor" else pickle.loads(pickle.dumps(S0)))
            victims = list(S0.nodes)[:1]
            try:
                if S0.num_edges:
                    S0.remove_simplex_id(list(S0.edges)[-1])
                S0.remove_nodes_from(victims)
                S0.add_simplex([g.node(7), g.node(8)])
            except Exception:  # noqa: BLE001
                pass
    return _measure(tag, S, g, rng, n_orient, f"{'explicit' if explicit else 'automatic'} ids")


def history_complex(g, rng, length):
    """a complex reached by a random history of its own mutators (the generator and adapter of the C03 driver:
    explicit ids that are in use, ahead of or behind the counter, bulk formats, removals of nodes and
    simplices in between)"""
    from . import core, sc

    S = xgi.SimplicialComplex()
    gen = core.domain_gen(sc.rand_op, g)
    pre, _ = sc.proj(S, g)
    for _ in range(length):
        op = gen(rng, pre, 5)
        if op["name"] in ("freeze", "clear"):
            continue
        res, _, g2 = sc.call(S, op, g, rng)
        if res == "ok":
            g = g2
        pre, anom = sc.proj(S, g)
        if anom or pre.get("uid", 0) > 40:
            break
    return S, g


def observe_history(tag, g, rng, n_orient, length):
    try:
        S, g = history_complex(g, rng, length)
        return _measure(tag, S, g, rng, n_orient, f"after a history of {length} calls")
    except Exception as ex:  # noqa: BLE001
        return [{"rid": f"{tag}.o0", "what": f"complex ({g.name}): history", "st": obscore_empty(), "B": [], "L": [],
                 "anom": [f"setup.{hg.classify(ex)}"]}]


def _measure(tag, S, g, rng, n_orient, label):
    st, anom = hg.proj(S, g)
    frozen = rng.random() < 0.4
    if frozen:
        S.freeze()
    iN, iE = g.inv_node, g.inv_edge
    dim = max([len(m) - 1 for m in st["e2n"]] + [0])
    ids = [e for e in S.edges if len(S._edge[e]) >= 2]
    out = []
    if ids:
        # the very first requests come under two different assignments, one per order: nothing computed for
        # one assignment may be served for another
        with warnings.catch_warnings():
            warnings.simplefilter("ignore")
            try:
                a1 = {e: rng.randrange(2) for e in ids}
                a2 = {e: 1 - v for e, v in a1.items()}
                xgi.boundary_matrix(S, order=1, orientations=a1)
                xgi.boundary_matrix(S, order=min(2, dim + 1), orientations=a2)
            except Exception:  # noqa: BLE001
                pass
    for oi in range(n_orient):
        # orientations as ints, python bools or numpy bools (all are "boolean orientations")
        conv = [int, bool, np.bool_][oi % 3]
        ori = {e: conv(0 if oi == 0 else rng.randrange(2)) for e in ids}
        B, L, errs = [], [], []
        with warnings.catch_warnings():
            warnings.simplefilter("ignore")
            try:
                if oi > 0 and ids:
                    # other requests in between, under another assignment (whatever was computed for it must not
                    # be served for this one)
                    other = {e: conv(1 - int(v)) for e, v in ori.items()}
                    xgi.hodge_laplacian(S, order=0, orientations=other)
                    xgi.boundary_matrix(S, order=min(2, dim + 1), orientations=other)
                for k in range(1, dim + 2):
                    M, rd, cd = xgi.boundary_matrix(S, order=k, orientations=None if oi == 0 else ori, index=True)
                    M = np.asarray(M)
                    inv_r = iN if k == 1 else iE
                    B.append({"k": k, "rows": [inv_r(rd[i]) for i in range(M.shape[0])],
                              "cols": [iE(cd[i]) for i in range(M.shape[1])],
                              "m": [[int(round(x)) if abs(x - round(x)) < 1e-12 else 999 for x in row] for row in M.tolist()]})
                for k in range(0, dim + 1):
                    Lk, md = xgi.hodge_laplacian(S, order=k, orientations=None if oi == 0 else ori, index=True)
                    Lk = np.asarray(Lk)
                    inv = iN if k == 0 else iE
                    L.append({"k": k, "ids": [inv(md[i]) for i in range(Lk.shape[0])],
                              "m": [[int(round(x)) if abs(x - round(x)) < 1e-12 else 999 for x in row] for row in Lk.tolist()]})
            except Exception as ex:  # noqa: BLE001
                errs.append(hg.classify(ex))
        out.append({"rid": f"{tag}.o{oi}", "what": f"complex ({g.name}, {label}, "
                    f"{'default' if oi == 0 else 'random'} orientations)", "st": st, "B": B, "L": L,
                    "anom": sorted(set(anom + errs))})
    return out


def _worker(args):
    states, base, seed_, n_orient = args
    out = []
    for k, j in enumerate(states):
        rng = random.Random(seed_ * 86028121 + base + k)
        g = Gamma(*FAMS[(base + k) % len(FAMS)])
        out += observe(f"s{base + k}", j, g, rng, n_orient)
        if k % 2 == 0:
            gh = Gamma(*HFAMS[(base + k // 2) % len(HFAMS)])
            out += observe_history(f"h{base + k}", gh, rng, 2, rng.choice([4, 6, 9, 12]))
    return out


BUD = {"quick": {"shapes": {"NN": 4, "ME": 3, "MinSize": 1}, "max_shapes": 400, "orient": 3},
       "thorough": {"shapes": {"NN": 5, "ME": 4, "MinSize": 2}, "max_shapes": 6000, "orient": 8}}


def run(tier, seed_):
    t = common.Timer()
    b = BUD[tier]
    shapes, mc = obscore.enumerate_shapes("MC_ShapesH", b["shapes"], max_states=b["max_shapes"])
    jobs = common.NCPU
    recs = []
    with ProcessPoolExecutor(max_workers=jobs) as ex:
        for part in ex.map(_worker, [(shapes[i::jobs], i * 100003, seed_, b["orient"]) for i in range(jobs) if shapes[i::jobs]]):
            recs += part
    # one high-degree complex: a hub joined to 130 others (entries of B^T B beyond one byte)
    hub = {"nodes": list(range(131)), "edges": list(range(130)), "e2n": [[0, k] for k in range(1, 131)],
           "n2e": [], "nak": [], "eak": [], "nattr": [], "eattr": [], "gattr": [], "uid": 130, "frozen": False}
    recs += observe("hub", hub, BigGamma(), random.Random(seed_), 2, explicit=False)
    log(f"[C13] {len(recs)} (complex, orientation) pairs from {len(shapes)} TLC-enumerated generator sets ({t():.0f}s)")

    def selftest(records, bad):
        r0 = next(r for r in records if r["rid"] not in bad and len(r["B"]) >= 2 and r["B"][1]["cols"])
        m = json.loads(json.dumps(r0))
        m["rid"] = "selftest"
        b2 = m["B"][1]
        ri = next(i for i, row in enumerate(b2["m"]) if row[0] != 0)
        b2["m"][ri][0] = -b2["m"][ri][0]  # one sign flipped in the order-2 boundary
        v = common.validate_records([m], "TraceC13")
        if "C13:product.zero" not in v.get("selftest", []):
            raise common.MachineryError(f"C13 self-test did not fire: {v}")
        return {"corrupted_records": 1, "rejected": 1}

    samples = [{"rid": r["rid"], "what": r["what"], "nodes": r["st"]["nodes"], "simplices": r["st"]["e2n"],
                "boundary_1": r["B"][0] if r["B"] else None} for r in recs[:: max(1, len(recs) // 4)]][:4]
    return obscore.report(
        "C13", tier, seed_, t, records=recs, trace_module="TraceC13", mc_stats=mc,
        rule="inputs = simplicial complexes generated by every TLC-enumerated set of generators on at most 4 (quick) / 5 "
             "(thorough) vertices, closed by the library, with numeric, string and mixed node labels, automatic or "
             "explicit (string / gapped) simplex ids, and complexes reached by random histories of the complex's own "
             "mutators (every second generator set); default and random orientation assignments, every order "
             "0..dim+1; distinct = (sorted simplex sizes, label family, orientation kind)",
        samples=samples, selftest=selftest,
        class_of=lambda r: (tuple(sorted(len(m) for m in r["st"]["e2n"])), r["what"]),
        assumptions=["kernel dimension of L_0 is not computed: TLC checks L_0 = B_1 B_1^T with B_1 a signed "
                     "vertex-edge incidence matrix of the 1-skeleton; the rank statement is the textbook theorem",
                     "positive semidefiniteness follows from the Hodge identity (a sum of two Gram matrices)"])
