"""C16: generators deliver the structure their parameters promise (spec/Gen.tla)."""
import itertools
import json
import random
import signal
import warnings
from concurrent.futures import ProcessPoolExecutor

import networkx as nx
import numpy as np
import xgi

from . import common, hg, obscore
from .c19 import EMPTYJ
from .common import log
from .gamma import Gamma

G0 = Gamma("ints", "int")


class _Timeout(Exception):
    pass


def _alarm(signum, frame):
    raise _Timeout()


def P(gen, **kw):
    p = {"gen": gen, "n": 0, "m": 0, "sizes": [], "zero": [], "one": [], "norepeat": False, "nodes": [], "maxdeg": [],
         "blocks": [], "pzero": [], "pone": [], "links": [], "k": 0, "l": 0, "d": 0, "c": 0, "a": 0, "b": 0, "src": []}
    p.update(kw)
    return p


def call(what, f):
    signal.alarm(15)
    try:
        with warnings.catch_warnings():
            warnings.simplefilter("ignore")
            return f(), "ok"
    except _Timeout:
        return None, "timeout"
    except Exception as ex:  # noqa: BLE001
        return None, hg.classify(ex)
    finally:
        signal.alarm(0)


def pflags(ps, sizes):
    return [s for p, s in zip(ps, sizes) if p == 0], [s for p, s in zip(ps, sizes) if p == 1]


def cases(rng, seeds):
    """(what, params, thunk) triples over bounded parameter grids"""
    out = []
    probs = [0, 0.3, 1]
    for n in (1, 3, 4, 6):
        for ps in itertools.product(probs, repeat=2):
            ps = list(ps)
            sizes = [2, 3]
            z, o = pflags(ps, sizes)
            for s in seeds:
                for name, f in (("fast_random_hypergraph", xgi.fast_random_hypergraph), ("random_hypergraph", xgi.random_hypergraph)):
                    out.append((f"{name}(n={n},ps={ps})", P("random", n=n, sizes=sizes, zero=z, one=[k for k in o if k <= n],
                                                            norepeat=True),
                                lambda f=f, n=n, ps=ps, s=s: f(n, ps, seed=s)))
        # explicit order lists, also not in increasing sequence
        for orders in ([2, 1], [1, 2], [3, 1]):
            for ps in ([1.0, 0.0], [0.0, 1.0], [0.3, 1.0]):
                sizes = [d + 1 for d in orders]
                z, o = pflags(ps, sizes)
                for s in seeds[:2]:
                    for name, f in (("fast_random_hypergraph", xgi.fast_random_hypergraph), ("random_hypergraph", xgi.random_hypergraph)):
                        out.append((f"{name}(n={n},ps={ps},order={orders})",
                                    P("random", n=n, sizes=sizes, zero=z, one=[k for k in o if k <= n], norepeat=True),
                                    lambda f=f, n=n, ps=ps, orders=orders, s=s: f(n, ps, order=orders, seed=s)))
        for p in probs:
            for s in seeds:
                out.append((f"fast_random_hypergraph(n={n},ps={p},order=2)",
                            P("random", n=n, sizes=[3], zero=[3] if p == 0 else [], one=[3] if p == 1 and n >= 3 else [],
                              norepeat=True), lambda n=n, p=p, s=s: xgi.fast_random_hypergraph(n, float(p), order=2, seed=s)))
    for n, m in ((4, 2), (5, 3), (6, 2), (3, 3), (4, 1)):
        for p in probs:
            for multi in (False, True):
                for s in seeds:
                    out.append((f"uniform_erdos_renyi_hypergraph(n={n},m={m},p={p},multiedges={multi})",
                                P("random", n=n, sizes=[m], zero=[m] if p == 0 else [],
                                  one=[m] if (p == 1 and not multi) else [], norepeat=not multi),
                                lambda n=n, m=m, p=p, multi=multi, s=s: xgi.uniform_erdos_renyi_hypergraph(
                                    n, m, p, multiedges=multi, seed=s)))
    # stochastic block model: two blocks, m = 2 and 3, every pattern probability in {0, 0.4, 1}
    for sizes_ in ([2, 2], [3, 2]):
        n = sum(sizes_)
        blocks = [list(range(sizes_[0])), list(range(sizes_[0], n))]
        for m in (2, 3):
            pats = list(itertools.combinations_with_replacement([0, 1], m))
            for combo in itertools.product(probs, repeat=len(pats)) if m == 2 else [tuple(rng.choice(probs) for _ in pats) for _ in range(8)]:
                p = np.zeros((2,) * m)
                for pat, v in zip(pats, combo):
                    for perm in set(itertools.permutations(pat)):
                        p[perm] = v
                pz = [[b + 1 for b in pat] for pat, v in zip(pats, combo) if v == 0]
                p1 = [[b + 1 for b in pat] for pat, v in zip(pats, combo) if v == 1]
                for s in seeds[:3]:
                    out.append((f"uniform_HSBM(n={n},m={m},p={dict(zip(pats, combo))},sizes={sizes_})",
                                P("block", n=n, m=m, blocks=blocks, pzero=pz, pone=p1),
                                lambda n=n, m=m, p=p, sizes_=sizes_, s=s: xgi.uniform_HSBM(n, m, p, sizes_, seed=s)))
    for s in seeds:
        out.append(("uniform_HPPM(n=6,m=2,k=2,epsilon=0.5)", P("random", n=6, sizes=[2], norepeat=False),
                    lambda s=s: xgi.uniform_HPPM(6, 2, 2, 0.5, seed=s)))
    # randomizing generators (a new hypergraph derived from a source) and the trivial ones
    for src in ([[0, 1, 2], [1, 2, 3], [3, 4], [0, 4], [2, 3, 4], [5]], [[0, 1], [1, 2], [2, 3], [0, 1, 2]],
                [[0, 1, 2], [0, 1], [0, 2], [1, 2], [2, 3]]):
        nodes_ = sorted({x for m in src for x in m})
        mk = lambda src=src: xgi.Hypergraph(src)  # noqa: E731
        for d in sorted({len(m) - 1 for m in src}):
            for prob in (0, 0.5, 1):
                for s in seeds[:3]:
                    out.append((f"shuffle_hyperedges(order={d},p={prob})",
                                P("shuffle", nodes=nodes_, src=src, d=d, zero=[1] if prob == 0 else []),
                                lambda mk=mk, d=d, prob=prob, s=s: xgi.shuffle_hyperedges(mk(), d, prob, seed=s)))
            inord = sorted({x for m in src if len(m) == d + 1 for x in m})
            for a, b in ((inord[0], inord[-1]), (inord[0], inord[1])) if len(inord) >= 2 else ():
                out.append((f"node_swap({a},{b},order={d})", P("node_swap", nodes=nodes_, src=src, d=d, a=a, b=b),
                            lambda mk=mk, a=a, b=b, d=d: xgi.node_swap(mk(), a, b, order=d)))
        out.append((f"node_swap({nodes_[0]},{nodes_[-1]})", P("node_swap", nodes=nodes_, src=src, d=-1, a=nodes_[0], b=nodes_[-1]),
                    lambda mk=mk, a=nodes_[0], b=nodes_[-1]: xgi.node_swap(mk(), a, b)))
    for n in (0, 1, 4):
        out.append((f"trivial_hypergraph({n})", P("trivial", n=n), lambda n=n: xgi.trivial_hypergraph(n)))
        for f in (xgi.empty_hypergraph, xgi.empty_simplicial_complex):
            out.append((f"{f.__name__}()", P("trivial", n=0), lambda f=f: f()))
    # configuration-type models
    for k in ({0: 1, 1: 2, 2: 3, 3: 2}, {0: 2, 1: 2, 2: 2}, {"a": 1, "b": 1, "c": 2},
              {(0, 0): 1, (0, 1): 2, (1, 0): 2, (1, 1): 1}, {frozenset({1}): 2, frozenset({2}): 1, frozenset({1, 2}): 1}):
        for m in (2, 3):
            # a sum that m does not divide: documented to add one connection to (m - remainder) random nodes
            slack = (m - sum(k.values()) % m) % m
            lab = list(k)
            inv = {x: i for i, x in enumerate(lab)}
            for s in seeds:
                out.append((f"uniform_hypergraph_configuration_model(k={k},m={m})",
                            P("config", m=m, n=slack, nodes=[inv[x] for x in lab], maxdeg=[[inv[x], d] for x, d in k.items()]),
                            (lambda k=k, m=m, s=s: xgi.uniform_hypergraph_configuration_model(dict(k), m, seed=s)), inv))
    for s in seeds:
        # prescribed degrees / sizes may be 0: the node is still part of the requested node set
        k1z = {0: 2, 1: 0, 2: 2, 3: 1, 4: 0}
        k2z = {0: 3, 1: 0, 2: 2}
        out.append((f"chung_lu_hypergraph({k1z},{k2z})", P("bipartite", nodes=list(k1z), sizes=list(k2z)),
                    lambda s=s: xgi.chung_lu_hypergraph(k1z, k2z, seed=s)))
        out.append((f"dcsbm_hypergraph({k1z},{k2z})", P("bipartite", nodes=list(k1z), sizes=list(k2z)),
                    lambda s=s: xgi.dcsbm_hypergraph(k1z, k2z, {i: i % 2 for i in k1z}, {i: i % 2 for i in k2z},
                                                     np.array([[3, 1], [1, 1]]), seed=s)))
        k1 = {0: 1, 1: 2, 2: 3, 3: 2}
        k2 = {0: 3, 1: 3, 2: 2}
        out.append((f"chung_lu_hypergraph({k1},{k2})", P("bipartite", nodes=list(k1), sizes=list(k2)),
                    lambda s=s: xgi.chung_lu_hypergraph(k1, k2, seed=s)))
        g1 = {0: 0, 1: 0, 2: 1, 3: 1}
        g2 = {0: 0, 1: 1, 2: 1}
        omega = np.array([[4, 1], [1, 2]])
        out.append((f"dcsbm_hypergraph({k1},{k2})", P("bipartite", nodes=list(k1), sizes=list(k2)),
                    lambda s=s: xgi.dcsbm_hypergraph(k1, k2, g1, g2, omega, seed=s)))
    # deterministic generators
    for n, d, k, l in ((5, 2, 2, 0), (6, 3, 4, 1), (7, 3, 2, 2), (4, 2, 4, 0), (5, 1, 2, 0), (6, 2, 3, 1)):
        out.append((f"ring_lattice({n},{d},{k},{l})", P("ring", n=n, d=d, k=k, l=l), lambda n=n, d=d, k=k, l=l: xgi.ring_lattice(n, d, k, l)))
        for s in seeds[:2]:
            out.append((f"watts_strogatz_hypergraph({n},{d},{k},{l},p=0)", P("ring", n=n, d=d, k=k, l=l),
                        lambda n=n, d=d, k=k, l=l, s=s: xgi.watts_strogatz_hypergraph(n, d, k, l, 0, seed=s)))
    # rewired lattices: still exactly the n requested nodes, every edge a set of at most d of them
    for n, d, k, l in ((6, 3, 2, 0), (10, 3, 2, 0), (5, 2, 2, 1)):
        for prob in (0.3, 1):
            for s in list(seeds) + [seeds[0] + 100 + i for i in range(12)]:
                out.append((f"watts_strogatz_hypergraph({n},{d},{k},{l},p={prob})", P("random", n=n, sizes=list(range(1, d + 1))),
                            lambda n=n, d=d, k=k, l=l, prob=prob, s=s: xgi.watts_strogatz_hypergraph(n, d, k, l, prob, seed=s)))
    for a, b, d in ((1, 1, 0), (2, 3, 1), (3, 3, 2), (4, 2, 1), (2, 4, 3), (1, 3, 2), (2, 3, 0), (3, 2, 0), (1, 4, 0)):
        out.append((f"star_clique({a},{b},{d})", P("star_clique", a=a, b=b, d=d), lambda a=a, b=b, d=d: xgi.star_clique(a, b, d)))
    for l, c, m in ((3, 1, 3), (2, 2, 4), (4, 0, 2), (3, 2, 2), (1, 1, 3), (2, 3, 3)):
        out.append((f"sunflower({l},{c},{m})", P("sunflower", l=l, c=c, m=m), lambda l=l, c=c, m=m: xgi.sunflower(l, c, m)))
    for n in (1, 3, 4, 5):
        for order in (0, 1, 2, 3):
            out.append((f"complete_hypergraph({n},order={order})", P("complete", n=n, sizes=[order + 1]),
                        lambda n=n, order=order: xgi.complete_hypergraph(n, order=order)))
        for mo in (1, 2, 3):
            for sing in (False, True):
                out.append((f"complete_hypergraph({n},max_order={mo},include_singletons={sing})",
                            P("complete", n=n, sizes=list(range(1 if sing else 2, mo + 2))),
                            lambda n=n, mo=mo, sing=sing: xgi.complete_hypergraph(n, max_order=mo, include_singletons=sing)))
    # simplicial complexes
    for n in (2, 3):   # fewer nodes than the largest order needs: the lower orders are still due
        for ps in ([1, 1], [1, 1, 1], [0.3, 1, 1], [1, 0.5, 1]):
            sizes_ = list(range(2, len(ps) + 2))
            one = [k for k, q in zip(sizes_, ps) if q == 1 and k <= n]
            # every size below a complete one is complete as well (faces), as far as n allows
            if one:
                one = [k for k in sizes_ if k <= max(one)]
            for s in seeds[:2]:
                out.append((f"random_simplicial_complex({n},{ps})", P("sc", nodes=list(range(n)), sizes=[1] + sizes_, one=one),
                            lambda n=n, ps=ps, s=s: xgi.random_simplicial_complex(n, ps, seed=s)))
    for n in (3, 4, 5):
        for ps in itertools.product(probs, repeat=2):
            ps = list(ps)
            z, o = pflags(ps, [2, 3])
            # faces of a present triangle force pairs: probability 0 for pairs only forbids pairs when no triangle can form
            zero = [k for k in z if k == 3 or ps[1] == 0]
            one = [3] if ps[1] == 1 else ([2] if ps[0] == 1 else [])
            if ps[1] == 1:
                one = [2, 3]
            for s in seeds:
                out.append((f"random_simplicial_complex({n},{ps})", P("sc", nodes=list(range(n)), sizes=[1, 2, 3], zero=zero, one=one),
                            lambda n=n, ps=ps, s=s: xgi.random_simplicial_complex(n, ps, seed=s)))
    graphs = [nx.complete_graph(4), nx.cycle_graph(5), nx.path_graph(3), nx.Graph([(0, 1), (1, 2), (0, 2), (2, 3), (3, 4), (2, 4)]),
              nx.empty_graph(3)]

    # graphs that did not come out of a generator: nodes created first (in any order), links inserted in any
    # order and orientation
    def handmade(n, links, k, lab=lambda x: x):
        r = random.Random(7919 * k + n)
        G = nx.Graph()
        order = list(range(n))
        r.shuffle(order)
        G.add_nodes_from([lab(x) for x in order])
        L = [tuple(lab(x) for x in r.sample(list(l), 2)) for l in links]
        r.shuffle(L)
        G.add_edges_from(L)
        return G
    tri = [(0, 2), (0, 1), (1, 2)]
    k4 = [(a, b) for a in range(4) for b in range(a + 1, 4)]
    k5 = [(a, b) for a in range(5) for b in range(a + 1, 5)]
    bow = [(0, 1), (1, 2), (0, 2), (2, 3), (3, 4), (2, 4)]
    gnp = [(a, b) for a in range(6) for b in range(a + 1, 6) if random.Random(a * 31 + b).random() < 0.6]
    graphs += [handmade(3, tri, 0), handmade(3, tri, 1), handmade(4, k4, 2), handmade(5, k5, 3), handmade(5, bow, 4),
               handmade(6, gnp, 5), handmade(6, gnp, 6), handmade(5, bow, 7), handmade(4, k4, 8)]
    for G in graphs:
        links = [[a, b] for a, b in G.edges]
        nodes = list(G.nodes)
        for mo in (1, 2, 3):
            out.append((f"flag_complex(G{links},max_order={mo})", P("flag", nodes=nodes, links=links, d=mo, norepeat=True),
                        lambda G=G, mo=mo: xgi.flag_complex(G, max_order=mo)))
            for pv in itertools.product([0, 1], repeat=mo - 1):
                # sizes 3.. are promoted with pv; a size with probability 1 whose supersets are not promoted
                # must be complete, a size with probability 0 and no promoted superset must be absent
                pv = list(pv)
                one = [k + 3 for k, v in enumerate(pv) if v == 1]
                zero = [k + 3 for k, v in enumerate(pv) if v == 0 and not any(pv[k + 1:])]
                out.append((f"flag_complex(G{links},max_order={mo},ps={pv})",
                            P("flag", nodes=nodes, links=links, d=mo, one=one, zero=zero),
                            lambda G=G, mo=mo, pv=pv: xgi.flag_complex(G, max_order=mo, ps=pv, seed=1)))
            for s in seeds[:3]:
                out.append((f"flag_complex(G{links},max_order={mo},ps=[0.5,..])", P("flag", nodes=nodes, links=links, d=mo),
                            lambda G=G, mo=mo, s=s: xgi.flag_complex(G, max_order=mo, ps=[0.5] * (mo - 1), seed=s)))
        out.append((f"flag_complex_d2(G{links})", P("flag", nodes=nodes, links=links, d=2, norepeat=True),
                    lambda G=G: xgi.flag_complex_d2(G)))
        for p2 in (0, 1):
            out.append((f"flag_complex_d2(G{links},p2={p2})", P("flag", nodes=nodes, links=links, d=2, zero=[3] if p2 == 0 else [],
                                                                 one=[3] if p2 == 1 else []),
                        lambda G=G, p2=p2: xgi.flag_complex_d2(G, p2=p2, seed=1)))
        for s in seeds[:3]:
            out.append((f"flag_complex_d2(G{links},p2=0.5)", P("flag", nodes=nodes, links=links, d=2),
                        lambda G=G, s=s: xgi.flag_complex_d2(G, p2=0.5, seed=s)))
    for n in (3, 4, 5):
        for p in (0, 0.5, 1):
            for s in seeds:
                out.append((f"random_flag_complex_d2({n},{p})", P("selfflag", n=n, d=2),
                            lambda n=n, p=p, s=s: xgi.random_flag_complex_d2(n, p, seed=s)))
                for mo in (2, 3):
                    out.append((f"random_flag_complex({n},{p},max_order={mo})", P("selfflag", n=n, d=mo),
                                lambda n=n, p=p, mo=mo, s=s: xgi.random_flag_complex(n, p, max_order=mo, seed=s)))
    return out


class LabelGamma:
    """generators with non-integer labels: map through the given table"""
    prev = None

    def __init__(self, inv):
        self.inv = inv
        self.name = "labels"

    def inv_node(self, x):
        return self.inv.get(x, -2)

    def inv_edge(self, x):
        return G0.inv_edge(x)

    def inv_attrs(self, d, table="n"):
        return G0.inv_attrs(d, table)


def _worker(args):
    idxs, seed_, nseeds = args
    signal.signal(signal.SIGALRM, _alarm)
    rng = random.Random(seed_)
    seeds = [seed_ * 1000 + i for i in range(nseeds)]
    allc = cases(rng, seeds)
    out = []
    for i in idxs:
        c = allc[i]
        what, p, f = c[0], c[1], c[2]
        g = LabelGamma(c[3]) if len(c) > 3 else G0
        r, res = call(what, f)
        if r is None:
            outj, anom = EMPTYJ, []
        else:
            outj, anom = hg.proj(r, g)
        out.append({"rid": f"g{i}", "what": what, "gname": what.split("(")[0], "kind": "gen", "p": p, "out": outj, "res": res, "anom": anom, "tbl": []})
    return out


def decoding_records():
    from xgi.generators.uniform import _index_to_edge_comb, _index_to_edge_partition, _index_to_edge_prod
    from scipy.special import comb

    out = []
    for n in range(1, 8):
        for m in range(1, min(n, 7) + 1):
            with warnings.catch_warnings():
                warnings.simplefilter("ignore")
                tbl = [[int(x) for x in _index_to_edge_comb(i, n, m)] for i in range(comb(n, m, exact=True))]
            out.append({"rid": f"comb{n}.{m}", "what": f"_index_to_edge_comb(n={n},m={m})", "gname": "comb", "kind": "comb",
                        "p": P("x", n=n, m=m), "out": EMPTYJ, "res": "ok", "anom": [], "tbl": tbl})
    for n in range(1, 6):
        for m in range(1, 5):
            if n ** m > 700:
                continue
            tbl = [[int(x) for x in _index_to_edge_prod(i, n, m)] for i in range(n ** m)]
            out.append({"rid": f"prod{n}.{m}", "what": f"_index_to_edge_prod(n={n},m={m})", "gname": "prod", "kind": "prod",
                        "p": P("x", n=n, m=m), "out": EMPTYJ, "res": "ok", "anom": [], "tbl": tbl})
    for sizes in ([2, 3], [1, 4], [2, 2, 3], [3, 1, 2], [4], [2, 2, 2, 2]):
        tot = int(np.prod(sizes))
        tbl = [[int(x) for x in _index_to_edge_partition(i, sizes, len(sizes))] for i in range(tot)]
        out.append({"rid": f"part{'x'.join(map(str, sizes))}", "what": f"_index_to_edge_partition({sizes})", "gname": "part", "kind": "part",
                    "p": P("x", sizes=sizes), "out": EMPTYJ, "res": "ok", "anom": [], "tbl": tbl})
    return out


def run(tier, seed_):
    t = common.Timer()
    nseeds = 4 if tier == "quick" else 40
    n = len(cases(random.Random(seed_), [seed_ * 1000 + i for i in range(nseeds)]))
    jobs = common.NCPU
    recs = []
    with ProcessPoolExecutor(max_workers=jobs) as ex:
        for part in ex.map(_worker, [(list(range(i, n, jobs)), seed_, nseeds) for i in range(jobs)]):
            recs += part
    recs += decoding_records()
    log(f"[C16] {len(recs)} generator calls / decoding tables ({t():.0f}s)")
    # TLC level: the generator postconditions hold of the specification's own reference networks
    shapes, mc = obscore.enumerate_shapes("MC_ShapesH", {"NN": 3, "ME": 2, "MinSize": 0})

    def selftest(records, bad):
        m = json.loads(json.dumps(next(r for r in records if r["rid"] not in bad and r["kind"] == "gen"
                                       and r["p"]["gen"] == "complete" and len(r["out"]["edges"]) >= 2)))
        m["rid"] = "selftest"
        for k in ("edges", "e2n", "eak", "eattr"):
            m["out"][k] = m["out"][k][:-1]
        last = len(m["out"]["edges"])
        m["out"]["n2e"] = [[e for e in es if e != last] for es in m["out"]["n2e"]]
        v = common.validate_records([m], "TraceGen")
        if not v.get("selftest"):
            raise common.MachineryError("C16 self-test did not fire")
        return {"corrupted_records": 1, "rejected": 1}

    samples = [{"rid": r["rid"], "what": r["what"], "res": r["res"], "nodes": r["out"]["nodes"], "members": r["out"]["e2n"][:8]}
               for r in recs[:: max(1, len(recs) // 6)]][:6]
    return obscore.report(
        "C16", tier, seed_, t, records=recs, trace_module="TraceGen", mc_stats=mc,
        rule="parameter grids per generator (n <= 7, m <= 4, probabilities 0 / 0.3 / 1 and vectors thereof, block sizes and "
             "all block-probability patterns, degree sequences, small input graphs) x seeds; index decodings exhaustively "
             "for n, m <= 7; distinct = distinct (generator, parameter tuple)",
        samples=samples, selftest=selftest, class_of=lambda r: r["what"],
        assumptions=["a generator is a nondeterministic action; only the postcondition of Gen.tla is checked, not the "
                     "distribution", "every call runs under a 15 s watchdog; a call that does not return is reported"])
