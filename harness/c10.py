"""C10: conversions between representations preserve the incidence relation;
C11: what is written to disk reads back as the same network (spec/Convert.tla)."""
import itertools
import json
import os
import random
import tempfile
import warnings
from concurrent.futures import ProcessPoolExecutor

import networkx as nx
import numpy as np
import xgi

from . import common, dhg, hg, nets, obscore
from .c19 import EMPTYJ, _do
from .common import log
from .gamma import UNKNOWN, Gamma


class MapGamma:
    """projection of a network whose labels are positions / casts of the source labels:
    node_map / edge_map send the result's labels to abstract ids"""

    def __init__(self, g, node_map=None, edge_map=None):
        self.g, self.nm, self.em = g, node_map, edge_map
        self.prev = None
        self.name = g.name + "+map"

    def inv_node(self, x):
        if self.nm is None:
            return self.g.inv_node(x)
        try:
            return self.nm.get(x, UNKNOWN)
        except TypeError:
            return UNKNOWN

    def inv_edge(self, x):
        if self.em is None:
            return self.g.inv_edge(x)
        try:
            return self.em.get(x, UNKNOWN)
        except TypeError:
            return UNKNOWN

    def inv_attrs(self, d, table="n"):
        return self.g.inv_attrs(d, table)


def rec(rid, prop, conv, keep, src, dst, res, anom, cls_ok=True, what=""):
    return {"rid": rid, "prop": prop, "what": what or conv, "conv": conv, "keep": keep, "src": src,
            "dst": dst if dst is not None else EMPTYJ, "res": res, "cls_ok": bool(cls_ok), "anom": anom}


def network(j, g, rng, attrs=True):
    H = obscore.realise(j, g, rng, shuffle=True)
    if rng.random() < 0.2:
        # a network with a past: views were taken, all edges were cleared and put back, a node came later
        vn, ve = H.nodes, H.edges
        list(vn), list(ve)
        saved = [(e, list(H._edge[e]), dict(H._edge_attr[e])) for e in H.edges]
        H.clear_edges()
        late = g.node(max(j["nodes"] + [0]) + 1) if g.node_kind != "exotic" else None
        for e, m, a in saved:
            H.add_edge(m, idx=e, **a)
        if late is not None and rng.random() < 0.5 and len(j["nodes"]) < 5:
            H.add_node(late)
    if attrs and rng.random() < 0.25:  # a network without network attributes, written after ones that have some
        for n in list(H.nodes)[:1]:
            H.nodes[n]["color"] = 3
        return H
    if attrs:
        for n in list(H.nodes)[:2]:
            H.nodes[n]["color"] = 3
        for e in list(H.edges)[:1]:
            H.edges[e]["wt"] = [5]
            H.edges[e]["color"] = 1
        H["wt"] = [7]
        H["color"] = 2
        if rng.random() < 0.4:
            H["incoming_data"] = 5  # a network attribute named like a constructor parameter
    if attrs and rng.random() < 0.3:  # attribute names that are parameter names of add_node / add_edge
        H.set_node_attributes({n: {"node": 4} for n in list(H.nodes)[-1:]})
        H.set_edge_attributes({e: {"idx": 2, "members": 1} for e in list(H.edges)[-1:]})
    return H


def conv_records(tag, j, g, rng):
    out = []
    H = network(j, g, rng)
    src, sanom = hg.proj(H, g)
    N, E = g.node, g.edge

    def add(conv, keep, result, res, gg=g, cls=xgi.Hypergraph, prop="C10"):
        if result is None or res != "ok":
            dst, anom, ok = None, [], True
            if res == "ok":
                res = "returned-None"
        else:
            dst, anom = hg.proj(result, gg)
            ok = type(result) is cls
        out.append(rec(f"{tag}.{conv}", prop, conv, keep, src, dst, res, sorted(set(sanom + anom)), ok,
                       what=f"{conv} ({g.name})"))

    has_inc = any(src["e2n"])
    # 1. hyperedge list / dict
    r, res = _do(lambda: xgi.from_hyperedge_list(xgi.to_hyperedge_list(H)))
    pos = MapGamma(g, edge_map={k: e for k, e in enumerate(src["edges"])})
    add("hyperedge_list", "edge_order", r, res, gg=pos)
    r, res = _do(lambda: xgi.from_hyperedge_dict(xgi.to_hyperedge_dict(H)))
    add("hyperedge_dict", "edge_dict", r, res)
    r, res = _do(lambda: xgi.Hypergraph(xgi.to_hyperedge_dict(H)))
    add("constructor(dict)", "edge_dict", r, res)
    r, res = _do(lambda: xgi.Hypergraph(xgi.to_hyperedge_list(H)))
    add("constructor(list)", "edge_order", r, res, gg=pos)
    if has_inc:
        # 2. bipartite edge list
        r, res = _do(lambda: xgi.from_bipartite_edgelist(xgi.to_bipartite_edgelist(H)))
        add("bipartite_edgelist", "incidences", r, res)
        # 3. two-column frame
        r, res = _do(lambda: xgi.from_bipartite_pandas_dataframe(xgi.to_bipartite_pandas_dataframe(H),
                                                                 node_column="Node ID", edge_column="Edge ID"))
        add("pandas", "incidences", r, res)
        r, res = _do(lambda: xgi.Hypergraph(xgi.to_bipartite_pandas_dataframe(H)))
        add("constructor(dataframe)", "incidences", r, res)
    # 4. incidence matrix with its index maps (labels) and without (positions)
    for sparse in (True, False):
        def inc_rt(labelled):
            I, rd, cd = xgi.to_incidence_matrix(H, sparse=sparse, index=True)
            if labelled:
                return xgi.from_incidence_matrix(I, nodelabels=[rd[i] for i in range(len(rd))],
                                                 edgelabels=[cd[i] for i in range(len(cd))]), None, None
            return xgi.from_incidence_matrix(I), rd, cd
        if has_inc:
            r, res = _do(lambda: inc_rt(True))
            add(f"incidence_matrix(labels,sparse={sparse})", "incidences", r[0] if r else None, res)
            r, res = _do(lambda: inc_rt(False))
            if r:
                gg = MapGamma(g, {i: g.inv_node(v) for i, v in r[1].items()}, {i: g.inv_edge(v) for i, v in r[2].items()})
                add(f"incidence_matrix(positions,sparse={sparse})", "incidences", r[0], res, gg=gg)
            else:
                add(f"incidence_matrix(positions,sparse={sparse})", "incidences", None, res)
    r, res = _do(lambda: xgi.to_hypergraph(xgi.to_incidence_matrix(H, sparse=False))) if has_inc else (None, "skip")
    if res != "skip":
        I, rd, cd = xgi.to_incidence_matrix(H, sparse=False, index=True)
        gg = MapGamma(g, {i: g.inv_node(v) for i, v in rd.items()}, {i: g.inv_edge(v) for i, v in cd.items()})
        add("to_hypergraph(ndarray)", "incidences", r, res, gg=gg)
    # 5. bipartite graph, with the vertices and links inserted in several orders
    def bip(order):
        G, nd, ed = xgi.to_bipartite_graph(H, index=True)
        if order == 0:
            return xgi.from_bipartite_graph(G), nd, ed
        G2 = nx.Graph()
        verts = list(G.nodes(data=True))
        links = list(G.edges())
        r2 = random.Random(order)
        if order == 1:  # edge vertices first
            verts = [v for v in verts if v[1]["bipartite"] == 1] + [v for v in verts if v[1]["bipartite"] == 0]
            links = [(b, a) for a, b in links]
        else:
            r2.shuffle(verts)
            links = [((a, b) if r2.random() < 0.5 else (b, a)) for a, b in links]
            r2.shuffle(links)
        G2.add_nodes_from(verts)
        G2.add_edges_from(links)
        return xgi.from_bipartite_graph(G2), nd, ed
    for order in (0, 1, 2, 3):
        r, res = _do(lambda: bip(order))
        if r:
            gg = MapGamma(g, {i: g.inv_node(v) for i, v in r[1].items()}, {i: g.inv_edge(v) for i, v in r[2].items()})
            add(f"bipartite_graph(order{order})", "bipartite_graph", r[0], res, gg=gg)
        else:
            add(f"bipartite_graph(order{order})", "bipartite_graph", None, res)
    # 6. the standard dict and the HIF dict
    casts = {"ints": int, "shift": int, "npint": int, "str": None}.get(g.node_kind, None)
    ecast_ok = all(e < 100 for e in src["edges"]) and g.edge_kind in ("int", "npint")
    if (casts is not None or g.node_kind == "str") and (ecast_ok or all(e >= 100 and e < 1000 for e in src["edges"])):
        ecast = int if ecast_ok and src["edges"] else None
        r, res = _do(lambda: xgi.from_hypergraph_dict(json.loads(json.dumps(xgi.to_hypergraph_dict(H))),
                                                     nodetype=casts, edgetype=ecast))
        add("hypergraph_dict", "everything", r, res)
    r, res = _do(lambda: xgi.from_hif_dict(xgi.to_hif_dict(H)))
    add("hif_dict", "everything", r, res)
    # 7. other classes
    S, res = _do(lambda: xgi.SimplicialComplex(H))
    add("SimplicialComplex(Hypergraph)", "to_simplicial", S, res, cls=xgi.SimplicialComplex)
    if S is not None:
        ssrc, sa = hg.proj(S, g)
        for conv, keep, f, cls in (
            ("Hypergraph(SimplicialComplex)", "same_network", lambda: xgi.Hypergraph(S), xgi.Hypergraph),
            ("hif_dict(SimplicialComplex)", "everything", lambda: xgi.from_hif_dict(xgi.to_hif_dict(S)), xgi.SimplicialComplex),
            ("SimplicialComplex(SimplicialComplex)", "same_network", lambda: xgi.SimplicialComplex(S), xgi.SimplicialComplex),
        ):
            r, res = _do(f)
            dst, anom = hg.proj(r, g) if r is not None else (None, [])
            out.append(rec(f"{tag}.{conv}", "C10", conv, keep, ssrc, dst, res if r is not None or res != "ok" else "returned-None",
                           sorted(set(sa + anom)), r is None or type(r) is cls, what=f"{conv} ({g.name})"))
    r, res = _do(lambda: xgi.Hypergraph(H))
    add("Hypergraph(Hypergraph)", "same_network", r, res)
    return out


def directed_records(tag, j, g, rng, disk=None):
    """directed source: DiHypergraph -> Hypergraph keeps tail U head; HIF and the bipartite edge list keep direction.
    With disk=<directory>: only the file round trips (C11)."""
    out = []
    D = xgi.DiHypergraph()
    D.add_nodes_from([g.node(n) for n in j["nodes"]])
    for m in j["e2n"]:
        mm = [g.node(n) for n in m]
        k = rng.randrange(len(mm) + 1)
        D.add_edge((mm[:k], mm[k:] + mm[:1] if rng.random() < 0.3 else mm[k:]))
    D["color"] = 2
    for n in list(D.nodes)[:1]:
        D.nodes[n]["color"] = 3
    dsrc, da = dhg.proj(D, g)
    # flattened view of the source as an undirected state, computed from the projection
    flat = {"nodes": dsrc["nodes"], "edges": dsrc["edges"],
            "e2n": [sorted(set(t) | set(h)) for t, h in zip(dsrc["tail"], dsrc["head"])],
            "n2e": [sorted(set(a) | set(b)) for a, b in zip(dsrc["nout"], dsrc["nin"])],
            "nak": dsrc["nak"], "eak": dsrc["eak"], "nattr": dsrc["nattr"], "eattr": dsrc["eattr"],
            "gattr": dsrc["gattr"], "uid": dsrc["uid"], "frozen": False}
    prop = "C11" if disk else "C10"
    if not disk:
        r, res = _do(lambda: xgi.Hypergraph(D))
        dst, anom = hg.proj(r, g) if r is not None else (None, [])
        out.append(rec(f"{tag}.Hypergraph(DiHypergraph)", "C10", "Hypergraph(DiHypergraph)", "same_network", flat, dst, res,
                       sorted(set(da + anom)), r is None or type(r) is xgi.Hypergraph, what=f"Hypergraph(DiHypergraph) ({g.name})"))

    def hif_file():
        path = os.path.join(disk, f"{tag}.dhif.json")
        xgi.write_hif(D, path)
        return xgi.read_hif(path)
    convs = (("hif(DiHypergraph)", hif_file),) if disk else (
        ("hif_dict(DiHypergraph)", lambda: xgi.from_hif_dict(xgi.to_hif_dict(D))),
        ("DiHypergraph(DiHypergraph)", lambda: xgi.DiHypergraph(D)))
    for conv, f in convs:
        r, res = _do(f)
        if r is not None and type(r) is xgi.DiHypergraph:
            d2, a2 = dhg.proj(r, g)
            same = all(d2[k] == dsrc[k] for k in ("tail", "head", "nattr", "eattr", "gattr")) and \
                set(d2["nodes"]) == set(dsrc["nodes"]) and d2["edges"] == dsrc["edges"] if conv.startswith("Di") else \
                (sorted(zip(d2["edges"], d2["tail"], d2["head"])) == sorted(zip(dsrc["edges"], dsrc["tail"], dsrc["head"]))
                 and set(d2["nodes"]) == set(dsrc["nodes"]) and d2["gattr"] == dsrc["gattr"]
                 and sorted(zip(d2["nak"], d2["nattr"])) == sorted(zip(dsrc["nak"], dsrc["nattr"])))
            # the directed comparison is done here on the projections; TLC receives it as the flattened pair
            fl2 = dict(flat)
            fl2["e2n"] = [sorted(set(t) | set(h)) for t, h in zip(d2["tail"], d2["head"])]
            fl2["n2e"] = [sorted(set(a) | set(b)) for a, b in zip(d2["nout"], d2["nin"])]
            fl2.update({k: d2[k] for k in ("nodes", "edges", "nak", "eak", "nattr", "eattr", "gattr", "uid")})
            out.append(rec(f"{tag}.{conv}", prop, conv, "everything", flat, fl2, res,
                           sorted(set(da + a2)) + ([] if same else ["direction-not-preserved"]), True,
                           what=f"{conv} ({g.name})"))
        else:
            out.append(rec(f"{tag}.{conv}", prop, conv, "everything", flat, None, res if res != "ok" else "wrong-class",
                           da, False, what=f"{conv} ({g.name})"))
    if disk:
        return out
    # representations that keep the incidences with their direction (also for nodes on both sides of an edge)
    def inc(d):
        return ({(e, n) for e, t in zip(d["edges"], d["tail"]) for n in t}, {(e, n) for e, h in zip(d["edges"], d["head"]) for n in h})

    def via_graph():
        G, itn, ite = xgi.to_bipartite_graph(D, index=True)
        gm = MapGamma(g, node_map={i: g.inv_node(lab) for i, lab in itn.items()},
                      edge_map={i: g.inv_edge(lab) for i, lab in ite.items()})
        return xgi.from_bipartite_graph(G), gm

    def via_edgelist():
        return xgi.from_bipartite_edgelist(xgi.to_bipartite_edgelist(D)), g

    has_inc = any(dsrc["tail"]) or any(dsrc["head"])
    for conv, f in (("bipartite_graph(DiHypergraph)", via_graph), ("bipartite_edgelist(DiHypergraph)", via_edgelist)):
        if conv.startswith("bipartite_edgelist") and not has_inc:
            continue  # an empty list carries no class either
        rr, res = _do(f)
        if rr is not None and type(rr[0]) is xgi.DiHypergraph:
            d2, a2 = dhg.proj(rr[0], rr[1])
            fl2 = dict(flat)
            fl2.update({k: d2[k] for k in ("nodes", "edges", "nak", "eak", "nattr", "eattr", "gattr", "uid")})
            fl2["e2n"] = [sorted(set(t) | set(h)) for t, h in zip(d2["tail"], d2["head"])]
            fl2["n2e"] = [sorted(set(a) | set(b)) for a, b in zip(d2["nout"], d2["nin"])]
            out.append(rec(f"{tag}.{conv}", "C10", conv, "bipartite_graph" if conv.startswith("bipartite_graph") else "incidences", flat, fl2, res,
                           sorted(set(da + a2)) + ([] if inc(d2) == inc(dsrc) else ["direction-not-preserved"]), True,
                           what=f"{conv} ({g.name})"))
        else:
            out.append(rec(f"{tag}.{conv}", "C10", conv, "incidences", flat, None, res if res != "ok" else "wrong-class",
                           da, False, what=f"{conv} ({g.name})"))
    return out


def _worker(args):
    states, base, seed_ = args
    out = []
    for k, j in enumerate(states):
        rng = random.Random(seed_ * 15485863 + base + k)
        fam = nets.FAMS[(base + k) % len(nets.FAMS)] if (base + k) % 4 else ("npint", "npint")
        g = Gamma(*fam)
        out += conv_records(f"s{base + k}", j, g, rng)
        out += directed_records(f"s{base + k}d", j, g, rng)
    return out


BUD = {"quick": {"shapes": {"NN": 4, "ME": 3, "MinSize": 0}, "max_shapes": 300},
       "thorough": {"shapes": {"NN": 4, "ME": 4, "MinSize": 0}, "max_shapes": 8000}}


def run(tier, seed_):
    t = common.Timer()
    b = BUD[tier]
    shapes, mc = obscore.enumerate_shapes("MC_ShapesH", b["shapes"], max_states=b["max_shapes"])
    jobs = common.NCPU
    recs = []
    with ProcessPoolExecutor(max_workers=jobs) as ex:
        for part in ex.map(_worker, [(shapes[i::jobs], i * 100003, seed_) for i in range(jobs) if shapes[i::jobs]]):
            recs += part
    log(f"[C10] {len(recs)} conversion round trips on {len(shapes)} TLC-enumerated states ({t():.0f}s)")

    def selftest(records, bad):
        m = json.loads(json.dumps(next(r for r in records if r["rid"] not in bad and r["conv"] == "hif_dict"
                                       and any(r["dst"]["e2n"]))))
        m["rid"] = "selftest"
        i = next(k for k, x in enumerate(m["dst"]["e2n"]) if x)
        n = m["dst"]["e2n"][i][0]
        m["dst"]["e2n"][i] = m["dst"]["e2n"][i][1:]
        ni = m["dst"]["nodes"].index(n)
        m["dst"]["n2e"][ni] = [e for e in m["dst"]["n2e"][ni] if e != m["dst"]["edges"][i]]
        v = common.validate_records([m], "TraceConvert")
        if not any("hif_dict.everything" in c for c in v.get("selftest", [])):
            raise common.MachineryError(f"C10 self-test did not fire: {v}")
        return {"corrupted_records": 1, "rejected": 1}

    samples = [{"rid": r["rid"], "what": r["what"], "keep": r["keep"], "src_nodes": r["src"]["nodes"],
                "src_edges": r["src"]["edges"], "src_members": r["src"]["e2n"]} for r in recs[:: max(1, len(recs) // 6)]][:6]
    return obscore.report(
        "C10", tier, seed_, t, records=recs, trace_module="TraceConvert", mc_stats=mc,
        rule="inputs = TLC-enumerated hypergraphs (isolated nodes, empty edges, multi-edges, attributes, explicit ids) "
             "under 4 label families, converted through every representation and back (and into the other classes; "
             "bipartite graphs re-inserted in 4 vertex / link orders); distinct = (converter, #nodes, multiset of "
             "edge sizes, label family)",
        samples=samples, selftest=selftest,
        class_of=lambda r: (r["conv"], len(r["src"]["nodes"]), tuple(sorted(len(m) for m in r["src"]["e2n"])),
                            r["what"].split("(")[-1]),
        assumptions=["positions are mapped back to labels through the index maps returned by the library",
                     "directed round trips are compared on the projections by the harness and reported to TLC as an "
                     "anomaly flag plus the flattened (tail U head) pair"])


# ---------------------------------------------------------------------------
# C11: disk round trips
# ---------------------------------------------------------------------------
def disk_records(tag, j, g, rng, tmpdir):
    out = []
    H = network(j, g, rng)
    src, sanom = hg.proj(H, g)
    casts = int if g.node_kind in ("ints", "shift") else None
    ecast = int if all(e < 100 for e in src["edges"]) else None
    mixed_edge_kinds = len({e < 100 for e in src["edges"]}) > 1
    has_inc = any(src["e2n"])

    def add(conv, keep, f, gg=g, cls=xgi.Hypergraph, source=None):
        r, res = _do(f)
        s = source or src
        if r is None or res != "ok":
            out.append(rec(f"{tag}.{conv}", "C11", conv, keep, s, None, res if res != "ok" else "returned-None", sanom,
                           True, what=f"{conv} ({g.name})"))
            return
        dst, anom = hg.proj(r, gg)
        out.append(rec(f"{tag}.{conv}", "C11", conv, keep, s, dst, res, sorted(set(sanom + anom)), type(r) is cls,
                       what=f"{conv} ({g.name})"))

    p = lambda name: os.path.join(tmpdir, f"{tag}.{name}")  # noqa: E731
    N0, N1 = g.node(0), g.node(1)

    def hif(net, name):
        xgi.write_hif(net, p(name))
        return xgi.read_hif(p(name))

    add("hif", "everything", lambda: hif(H, "hif.json"))
    S = xgi.SimplicialComplex(H)
    ssrc, _ = hg.proj(S, g)
    add("hif(SimplicialComplex)", "everything", lambda: hif(S, "hifsc.json"), cls=xgi.SimplicialComplex, source=ssrc)
    # a complex assembled by its own mutators (not by the converter the reader uses too): isolated nodes
    # with and without attributes, attributes on some simplices
    S2 = xgi.SimplicialComplex()
    S2.add_nodes_from(list(H.nodes))
    with warnings.catch_warnings():
        warnings.simplefilter("ignore")
        S2.add_simplices_from([list(H._edge[e]) for e in H.edges if H._edge[e]])
    for n in list(S2.nodes)[-1:]:
        S2.nodes[n]["color"] = 3
    s2src, _ = hg.proj(S2, g)
    add("hif(SimplicialComplex built by add_simplices_from)", "everything", lambda: hif(S2, "hifsc2.json"),
        cls=xgi.SimplicialComplex, source=s2src)

    # a write that is refused (a value JSON cannot represent) writes nothing: the file still reads back as
    # the network written before
    def refused(write, name):
        write(H, p(name))
        K = H.copy()
        K["unserialisable"] = {1, 2}
        try:
            write(K, p(name))
        except Exception:  # noqa: BLE001
            return True
        return False
    try:
        was_refused = refused(xgi.write_hif, "hif_refused.json")
    except Exception:  # noqa: BLE001 - the first write failing is reported by the plain round trip above
        was_refused = False
    if was_refused:
        add("hif(file after a refused second write)", "everything", lambda: xgi.read_hif(p("hif_refused.json")))

    def hif_coll():
        d = os.path.join(tmpdir, f"{tag}.coll")
        os.makedirs(d, exist_ok=True)
        xgi.write_hif_collection({"a": H, "b": xgi.Hypergraph([[1, 2]])}, d, collection_name="c")
        back = xgi.read_hif_collection(os.path.join(d, "c_collection_information.json"))
        return back["a"]
    add("hif_collection", "everything", hif_coll)

    # dataset names are free text: names that differ only in blanks / punctuation are different datasets
    def hif_coll_names(which):
        d = os.path.join(tmpdir, f"{tag}.coll3")
        os.makedirs(d, exist_ok=True)
        other = xgi.Hypergraph([[N0, N1]])
        xgi.write_hif_collection({"wave 1": H, "wave_1": other, "wave-1": other, "Wave 1": other}, d, collection_name="c")
        return xgi.read_hif_collection(os.path.join(d, "c_collection_information.json"))[which]
    add("hif_collection(names with blanks)", "everything", lambda: hif_coll_names("wave 1"))

    def hif_coll_second():  # the member written after H carries no attribute at all
        d = os.path.join(tmpdir, f"{tag}.coll2")
        os.makedirs(d, exist_ok=True)
        xgi.write_hif_collection({"a": H, "b": xgi.Hypergraph([[N0, N1]])}, d, collection_name="c")
        return xgi.read_hif_collection(os.path.join(d, "c_collection_information.json"))["b"]
    bsrc, _ = hg.proj(xgi.Hypergraph([[N0, N1]]), g)
    add("hif_collection(second member)", "everything", hif_coll_second, source=bsrc)
    if not mixed_edge_kinds:
        def js(net, name):
            xgi.write_json(net, p(name))
            return xgi.read_json(p(name), nodetype=casts, edgetype=ecast if src["edges"] else None)
        add("json", "everything", lambda: js(H, "h.json"))

        def js_coll():
            d = os.path.join(tmpdir, f"{tag}.jcoll")
            os.makedirs(d, exist_ok=True)
            xgi.write_json([H, xgi.Hypergraph([[1, 2]])], d, collection_name="j")
            back = xgi.read_json(os.path.join(d, "j_collection_information.json"), nodetype=casts,
                                 edgetype=ecast if src["edges"] else None)
            return back["0"]
        add("json_collection", "everything", js_coll)
    pos = MapGamma(g, edge_map={k: e for k, e in enumerate(src["edges"])})
    for dname, delim in (("default", None), ("comma", ","), ("tab", "\t"), ("bar", "|")):
        kw = {} if delim is None else {"delimiter": delim}

        def el():
            xgi.write_edgelist(H, p(f"el.{dname}"), **kw)
            return xgi.read_edgelist(p(f"el.{dname}"), nodetype=casts, **kw)
        add(f"edgelist({dname})", "edge_order", el, gg=pos)
        if has_inc and not mixed_edge_kinds:
            def bel():
                xgi.write_bipartite_edgelist(H, p(f"bel.{dname}"), **kw)
                return xgi.read_bipartite_edgelist(p(f"bel.{dname}"), nodetype=casts, edgetype=ecast, **kw)
            add(f"bipartite_edgelist({dname})", "incidences", bel)
        if has_inc:
            def im():
                xgi.write_incidence_matrix(H, p(f"im.{dname}"), **kw)
                return xgi.read_incidence_matrix(p(f"im.{dname}"), **kw)
            gg = MapGamma(g, {i: n for i, n in enumerate(src["nodes"])}, {i: e for i, e in enumerate(src["edges"])})
            add(f"incidence_matrix({dname})", "incidences", im, gg=gg)
    # node and edge labels with the same text but different casts (int nodes, string edge ids "0", "1", ...)
    if has_inc and g.node_kind == "ints":
        K = xgi.Hypergraph()
        K.add_nodes_from(H.nodes)
        emap = {}
        for k, e in enumerate(H.edges):
            K.add_edge(list(H._edge[e]), idx=str(k))
            emap[str(k)] = src["edges"][k]
        ksrc, _ = hg.proj(K, MapGamma(g, edge_map=emap))
        for dname, delim in (("default", None), ("comma", ","), ("bar", "|")):
            kw = {} if delim is None else {"delimiter": delim}

            def bel2(dname=dname, kw=kw):
                xgi.write_bipartite_edgelist(K, p(f"bel2.{dname}"), **kw)
                return xgi.read_bipartite_edgelist(p(f"bel2.{dname}"), nodetype=int, edgetype=str, **kw)
            add(f"bipartite_edgelist({dname},nodetype=int,edgetype=str)", "incidences", bel2, gg=MapGamma(g, edge_map=emap),
                source=ksrc)
    # labels containing characters that only some line splitters treat as line ends (explicit delimiters only)
    if g.node_kind == "str":
        gx = Gamma("exotic", "int")
        X = obscore.realise(j, gx, rng, shuffle=False)
        xsrc, xa = hg.proj(X, gx)
        xpos = MapGamma(gx, edge_map={k: e for k, e in enumerate(xsrc["edges"])})
        for dname, delim in (("comma", ","), ("bar", "|"), ("tab", "\t")):
            def elx(dname=dname, delim=delim):
                xgi.write_edgelist(X, p(f"elx.{dname}"), delimiter=delim)
                return xgi.read_edgelist(p(f"elx.{dname}"), delimiter=delim)
            add(f"edgelist({dname},exotic labels)", "edge_order", elx, gg=xpos, source=xsrc)
            if any(xsrc["e2n"]):
                def belx(dname=dname, delim=delim):
                    xgi.write_bipartite_edgelist(X, p(f"belx.{dname}"), delimiter=delim)
                    return xgi.read_bipartite_edgelist(p(f"belx.{dname}"), delimiter=delim, edgetype=int)
                add(f"bipartite_edgelist({dname},exotic labels)", "incidences", belx, gg=gx, source=xsrc)
    return out


def _disk_worker(args):
    states, base, seed_ = args
    out = []
    tmpdir = tempfile.mkdtemp(prefix="c11-", dir=common.scratch())
    for k, j in enumerate(states):
        rng = random.Random(seed_ * 32452843 + base + k)
        g = Gamma(*nets.FAMS[(base + k) % 2])  # JSON-representable labels: ints and strings
        out += disk_records(f"s{base + k}", j, g, rng, tmpdir)
        out += directed_records(f"s{base + k}d", j, g, rng, disk=tmpdir)
    import shutil

    shutil.rmtree(tmpdir, ignore_errors=True)
    return out


def run_c11(tier, seed_):
    t = common.Timer()
    b = BUD[tier]
    shapes, mc = obscore.enumerate_shapes("MC_ShapesH", b["shapes"], max_states=b["max_shapes"])
    # single-node and single-edge matrices are in the enumeration (1 x m and n x 1 incidence files)
    jobs = common.NCPU
    recs = []
    with ProcessPoolExecutor(max_workers=jobs) as ex:
        for part in ex.map(_disk_worker, [(shapes[i::jobs], i * 100003, seed_) for i in range(jobs) if shapes[i::jobs]]):
            recs += part
    log(f"[C11] {len(recs)} write/read round trips on {len(shapes)} TLC-enumerated states ({t():.0f}s)")

    def selftest(records, bad):
        m = json.loads(json.dumps(next(r for r in records if r["rid"] not in bad and r["conv"] == "hif"
                                       and r["dst"]["gattr"])))
        m["rid"] = "selftest"
        m["dst"]["gattr"] = []  # network attributes lost on the way
        v = common.validate_records([m], "TraceConvert")
        if not any("hif.everything" in c for c in v.get("selftest", [])):
            raise common.MachineryError(f"C11 self-test did not fire: {v}")
        return {"corrupted_records": 1, "rejected": 1}

    samples = [{"rid": r["rid"], "what": r["what"], "keep": r["keep"], "src_nodes": r["src"]["nodes"],
                "src_edges": r["src"]["edges"], "src_members": r["src"]["e2n"]} for r in recs[:: max(1, len(recs) // 6)]][:6]
    return obscore.report(
        "C11", tier, seed_, t, records=recs, trace_module="TraceConvert", mc_stats=mc,
        rule="inputs = TLC-enumerated hypergraphs (incl. 1 x m and n x 1 incidence shapes, isolated nodes, empty edges, "
             "attributes) with int and string labels, written and read back through HIF (also simplicial complexes and "
             "collections), JSON (with casts, collections), edge list, bipartite edge list and incidence matrix with "
             "four delimiters; distinct = (format, delimiter, #nodes, multiset of edge sizes, label family)",
        samples=samples, selftest=selftest,
        class_of=lambda r: (r["conv"], len(r["src"]["nodes"]), tuple(sorted(len(m) for m in r["src"]["e2n"])),
                            r["what"].split("(")[-1]),
        assumptions=["byte-level encoding is not modelled: only the network-level round trip for labels that cannot "
                     "contain the delimiter or the comment character"])
