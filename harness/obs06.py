"""C06 observer: what the views and statistics of a network report, read from objects
held since the start of the history (so a stale cache or a rebound table shows) and from
fresh ones.  Everything is mapped back to abstract ids; a call that raises yields the
sentinel [-99] (which no specification value equals)."""
import numpy as np

ERR = [-99]
MODES = ["eq", "neq", "lt", "gt", "leq", "geq", "between"]


def _held(H):
    d = H.__dict__.get("_verif_held")
    if d is None:
        d = {
            "nv": H.nodes, "ev": H.edges, "deg": H.nodes.degree, "size": H.edges.size,
            "order": H.edges.order, "deg1": H.nodes.degree(order=1),
            "multi": H.nodes.multi(["degree", H.nodes.degree(order=1)]),
        }
        H.__dict__["_verif_held"] = d
    return d


_RAISED = []  # accessors that raised during the current observation


def _try(f):
    try:
        return f()
    except Exception as ex:  # noqa: BLE001
        import linecache

        tb = ex.__traceback__
        while tb.tb_next is not None and "obs06" in tb.tb_next.tb_frame.f_code.co_filename:
            tb = tb.tb_next
        src = linecache.getline(tb.tb_frame.f_code.co_filename, tb.tb_lineno).strip()
        _RAISED.append(f"{type(ex).__name__} in {src[:70]}")
        return ERR


def _ints(xs):
    return [int(x) for x in xs]


def observe(H, g, post, rng):
    del _RAISED[:]
    out = _observe(H, g, post, rng)
    out["obs"]["errs"] = sorted(set(_RAISED))
    return out


def _observe(H, g, post, rng):
    if H is None:
        return {"obs": {}}
    h = _held(H)
    iN, iE = g.inv_node, g.inv_edge
    o = {}
    o["vn"] = _try(lambda: [iN(n) for n in h["nv"]])
    o["ve"] = _try(lambda: [iE(e) for e in h["ev"]])
    o["vn2"] = _try(lambda: [iN(n) for n in H.nodes])
    o["ve2"] = _try(lambda: [iE(e) for e in H.edges])
    deg, size = h["deg"], h["size"]
    o["deg"] = _try(lambda: [[iN(n), int(d)] for n, d in deg.asdict().items()])
    o["degl"] = _try(lambda: _ints(deg.aslist()))
    o["degn"] = _try(lambda: _ints(deg.asnumpy().tolist()))

    def pandas_of(stat, inv):
        s = stat.aspandas()
        return [inv(x) for x in s.index], _ints(s.values.tolist())

    p = _try(lambda: pandas_of(deg, iN))
    o["degpi"], o["degpv"] = p if p is not ERR else (ERR, ERR)
    o["dego"] = _try(lambda: [[k, _ints(H.nodes.degree(order=k).aslist())] for k in (0, 1, 2)])
    o["size"] = _try(lambda: [[iE(e), int(s)] for e, s in size.asdict().items()])
    o["sizel"] = _try(lambda: _ints(size.aslist()))
    o["ordl"] = _try(lambda: _ints(h["order"].aslist()))
    o["sized"] = _try(lambda: [[k, _ints(H.edges.size(degree=k).aslist()), _ints(H.edges.order(degree=k).aslist())]
                               for k in (1, 2)])
    p = _try(lambda: pandas_of(size, iE))
    o["sizepi"], o["sizepv"] = p if p is not ERR else (ERR, ERR)
    m = h["multi"]
    o["multid"] = _try(lambda: [[iN(n), [int(d["degree"]), int(d["degree(order=1)"])]]
                                for n, d in m.asdict().items()])
    o["multil"] = _try(lambda: [_ints(r) for r in m.aslist()])
    o["multin"] = _try(lambda: [_ints(r) for r in np.asarray(m.asnumpy()).reshape(-1, 2).tolist()])

    def multi_pd():
        df = m.aspandas()
        return [iN(x) for x in df.index], [_ints(r) for r in df.values.tolist()]

    p = _try(multi_pd)
    o["multipi"], o["multipv"] = p if p is not ERR else (ERR, ERR)
    v = rng.choice([0, 1, 1, 2, 3])
    v2 = v + rng.choice([0, 1, 2])
    o["filt"] = [[md, v, v2, _try(lambda md=md: [iN(n) for n in H.nodes.filterby(
        "degree", (v, v2) if md == "between" else v, md)])] for md in MODES]
    o["filte"] = [[md, v, v2, _try(lambda md=md: [iE(e) for e in H.edges.filterby(
        "size", (v, v2) if md == "between" else v, md)])] for md in MODES]
    av = rng.choice([0, 1, 2, 4])
    missing = rng.choice([None, 0, 1, 3])
    scalar_only = all(isinstance(d.get("color"), (int, type(None))) and not isinstance(d.get("color"), bool)
                      for d in H._node_attr.values())
    o["fattr"] = [] if not scalar_only else [[md, av, av + 1, 0, -1000 if missing is None else missing, _try(lambda md=md: [
        iN(n) for n in H.nodes.filterby_attr("color", (av, av + 1) if md == "between" else av, md, missing)])]
        for md in MODES]
    # the same for edges: the attribute statistic itself (falsy values are values) and the filter built on it
    e_scalar = all("color" not in d or (isinstance(d["color"], int) and not isinstance(d["color"], bool))
                   for d in H._edge_attr.values())
    emiss = -1000 if missing is None else missing
    o["eattrs"] = [] if not e_scalar else [emiss, _try(lambda: [[iE(e), emiss if v is None else int(v)]
                                                                 for e, v in H.edges.attrs("color", missing=missing).asdict().items()])]
    o["efattr"] = [] if not e_scalar else [[md, av, av + 1, emiss, _try(lambda md=md: [
        iE(e) for e in H.edges.filterby_attr("color", (av, av + 1) if md == "between" else av, md, missing)])] for md in MODES]
    nodes = list(H.nodes)
    edges = list(H.edges)
    o["nbr"] = [[iN(n), s, _try(lambda n=n, s=s: sorted(iN(x) for x in H.nodes.neighbors(n, s)))]
                for n in nodes[:6] for s in (1, 2)]
    o["enbr"] = [[iE(e), s, _try(lambda e=e, s=s: sorted(iE(x) for x in H.edges.neighbors(e, s)))]
                 for e in edges[:6] for s in (1, 2)]
    lk = []
    for e in edges[:3]:
        mem = list(H._edge[e])
        lk.append([sorted(iN(x) for x in mem), _try(lambda mem=mem: [iE(x) for x in H.edges.lookup(mem)])])
    o["lookup"] = lk
    nlk = []
    for n in nodes[:3]:
        ms = list(H._node[n])
        nlk.append([sorted(iE(x) for x in ms), _try(lambda ms=ms: [iN(x) for x in H.nodes.lookup(ms)])])
    nlk.append([[], _try(lambda: [iN(x) for x in H.nodes.lookup([])])])
    o["nlookup"] = nlk
    o["lookup"].append([[], _try(lambda: [iE(x) for x in H.edges.lookup([])])])
    # duplicates() orders the ids of each class of equal edges: ids that python cannot order against each other
    # (a numpy integer and a tuple of numpy integers, an int and a string) are outside its domain - not asked
    def _orderable():
        classes = {}
        for e_, m_ in H._edge.items():
            classes.setdefault(frozenset(m_), []).append(e_)
        try:
            for c_ in classes.values():
                sorted(c_)
            return True
        except Exception:  # noqa: BLE001
            return False
    o["dupsasked"] = bool(_orderable())
    o["dups"] = _try(lambda: [iE(e) for e in H.edges.duplicates()]) if o["dupsasked"] else []
    o["iso"] = _try(lambda: [iN(n) for n in H.nodes.isolates()])
    o["isoig"] = _try(lambda: [iN(n) for n in H.nodes.isolates(ignore_singletons=True)])
    o["single"] = _try(lambda: [iE(e) for e in H.edges.singletons()])
    o["empty"] = _try(lambda: [iE(e) for e in H.edges.empty()])
    from .c12 import frac

    # views restricted to a bunch of ids: the ids in view (not bunch) order, statistics over exactly them
    bn = [n for n in nodes if rng.random() < 0.5]
    rng.shuffle(bn)
    be = [e for e in edges if rng.random() < 0.5]
    rng.shuffle(be)

    fv = rng.choice([0, 1, 1, 2])

    def subviews():
        vn, ve = H.nodes(bn), H.edges(be)
        # a view restricted to a bunch, filtered by a statistic object that belongs to the full view
        return [[iN(n) for n in bn], [iN(n) for n in vn], _ints(vn.degree.aslist()), [iE(e) for e in be], [iE(e) for e in ve],
                _ints(ve.size.aslist()), [sorted(iN(x) for x in m) for m in ve.members()], [int(len(vn)), int(len(ve))],
                [fv, [iN(n) for n in vn.filterby(H.nodes.degree, fv, "geq")]],
                [fv + 1, [iE(e) for e in ve.filterby(H.edges.size, fv + 1, "leq")]],
                # the structural selections of a restricted view stay inside the view
                [[iE(e) for e in ve.singletons()], [iE(e) for e in ve.empty()], [iN(n) for n in vn.isolates()],
                 [iE(e) for e in ve.filterby("size", 1)]]]
    o["sub"] = _try(subviews)
    if o["sub"] is ERR:
        o["sub"] = [[-99]]
    if nodes:
        o["agg"] = _try(lambda: [int(deg.max()), int(deg.min()), int(deg.sum()), iN(deg.argmax()), iN(deg.argmin())])
        o["argsort"] = _try(lambda: [iN(n) for n in deg.argsort()])
        o["mean"] = _try(lambda: frac(deg.mean()))
        o["mean"] = o["mean"] if o["mean"] is not ERR else [1, 0]
    else:
        o["agg"], o["argsort"], o["mean"] = [], [], [0, 1]
    import xgi as _x

    def props():
        u = _x.is_uniform(H)
        mo = _x.max_edge_order(H)
        return [_ints(_x.unique_edge_sizes(H)), [-1 if mo is None else int(mo)], [-1 if u is False else int(u)],
                [int(_x.num_edges_order(H, d)) for d in range(4)], [int(_x.num_edges_order(H))],
                _ints(_x.degree_counts(H))]
    o["props"] = _try(props) if nodes else []
    if o["props"] is ERR:
        o["props"] = [[-99]]
    o["enb"] = [[iN(n), _try(lambda n=n: [sorted(iN(x) for x in s_) for s_ in _x.edge_neighborhood(H, n)])] for n in nodes[:5]] \
        if nodes else []
    o["max"] = _try(lambda: [iE(e) for e in H.edges.maximal()])
    o["maxs"] = _try(lambda: [iE(e) for e in H.edges.maximal(strict=True)])
    return {"obs": o}


def _held_d(H):
    d = H.__dict__.get("_verif_held")
    if d is None:
        d = {"nv": H.nodes, "ev": H.edges, "deg": H.nodes.degree, "indeg": H.nodes.in_degree,
             "outdeg": H.nodes.out_degree, "size": H.edges.size, "order": H.edges.order,
             "ts": H.edges.tail_size, "hs": H.edges.head_size, "to": H.edges.tail_order, "ho": H.edges.head_order}
        H.__dict__["_verif_held"] = d
    return d


def observe_directed(H, g, post, rng):
    del _RAISED[:]
    out = _observe_directed(H, g, post, rng)
    if isinstance(out, dict) and isinstance(out.get("obs"), dict):
        out["obs"]["errs"] = sorted(set(_RAISED))
    return out


def _observe_directed(H, g, post, rng):
    """directed statistics, from stat objects held since the start of the history"""
    if H is None:
        return {"obs": {}}
    h = _held_d(H)
    iN, iE = g.inv_node, g.inv_edge
    o = {}
    o["vn"] = _try(lambda: [iN(n) for n in h["nv"]])
    o["ve"] = _try(lambda: [iE(e) for e in h["ev"]])
    for key in ("deg", "indeg", "outdeg"):
        o[key] = _try(lambda key=key: [[iN(n), int(d)] for n, d in h[key].asdict().items()])
    o["dego"] = _try(lambda: [[k, _ints(H.nodes.degree(order=k).aslist()), _ints(H.nodes.in_degree(order=k).aslist()),
                               _ints(H.nodes.out_degree(order=k).aslist())] for k in (0, 1, 2)])
    o["size"] = _try(lambda: [[iE(e), int(s)] for e, s in h["size"].asdict().items()])
    o["ordl"] = _try(lambda: _ints(h["order"].aslist()))
    o["tails"] = _try(lambda: _ints(h["ts"].aslist()))
    o["heads"] = _try(lambda: _ints(h["hs"].aslist()))
    o["tailo"] = _try(lambda: _ints(h["to"].aslist()))
    o["heado"] = _try(lambda: _ints(h["ho"].aslist()))
    o["sized"] = _try(lambda: [[k, _ints(H.edges.size(degree=k).aslist()), _ints(H.edges.tail_size(degree=k).aslist()),
                                _ints(H.edges.head_size(degree=k).aslist()), _ints(H.edges.tail_order(degree=k).aslist()),
                                _ints(H.edges.head_order(degree=k).aslist())] for k in (1, 2, 3)])
    return {"obs": o}
