"""Binding for xgi.DiHypergraph (spec/DHG.tla)."""
import itertools
import random
import warnings

import xgi

from . import hg
from .gamma import ATTR_KEYS, UNKNOWN
from .hg import classify, item, mkop, peek_uid  # noqa: F401


def proj(H, g):
    anom = []

    def inv_n(x):
        k = g.inv_node(x)
        if k == UNKNOWN:
            anom.append(f"unknown-node-label:{x!r}")
        return k

    def inv_e(x):
        k = g.inv_edge(x)
        if k == UNKNOWN:
            anom.append(f"unknown-edge-label:{x!r}")
        return k

    rawn, rawe = H._node, H._edge
    nodes = [inv_n(n) for n in rawn]
    edges = [inv_e(e) for e in rawe]
    tail, head, nout, nin = [], [], [], []
    for e in rawe:
        try:
            tail.append(sorted(inv_n(n) for n in rawe[e]["in"]))
            head.append(sorted(inv_n(n) for n in rawe[e]["out"]))
        except Exception as ex:  # noqa: BLE001
            anom.append(f"bad-members:{type(ex).__name__}")
            tail.append([])
            head.append([])
    for n in rawn:
        try:
            nout.append(sorted(inv_e(e) for e in rawn[n]["out"]))
            nin.append(sorted(inv_e(e) for e in rawn[n]["in"]))
        except Exception as ex:  # noqa: BLE001
            anom.append(f"bad-memberships:{type(ex).__name__}")
            nout.append([])
            nin.append([])
    nak = [inv_n(n) for n in H._node_attr]
    eak = [inv_e(e) for e in H._edge_attr]
    nattr = [g.inv_attrs(H._node_attr[n], "n") for n in H._node_attr]
    eattr = [g.inv_attrs(H._edge_attr[e], "e") for e in H._edge_attr]
    gattr = g.inv_attrs(H._net_attr, "g")
    try:
        if list(H.nodes) != list(rawn):
            anom.append("view:nodes!=raw")
        if list(H.edges) != list(rawe):
            anom.append("view:edges!=raw")
        if H.num_nodes != len(rawn) or H.num_edges != len(rawe) or len(H) != len(rawn):
            anom.append("view:counts")
        if len(rawn) <= 40 and len(rawe) <= 40:
            dm = H.edges.dimembers(dtype=dict)
            if list(dm) != list(rawe) or any(
                set(dm[e][0]) != set(rawe[e]["in"]) or set(dm[e][1]) != set(rawe[e]["out"]) for e in rawe
            ):
                anom.append("view:dimembers!=raw")
            for e in rawe:
                if set(H.edges.tail(e)) != set(rawe[e]["in"]) or set(H.edges.head(e)) != set(rawe[e]["out"]):
                    anom.append("view:tail/head!=raw")
                    break
            ms = H.nodes.dimemberships()
            # dimemberships(n) = (in-memberships, out-memberships)
            if list(ms) != list(rawn) or any(
                set(ms[n][0]) != set(rawn[n]["in"]) or set(ms[n][1]) != set(rawn[n]["out"]) for n in rawn
            ):
                anom.append("view:dimemberships!=raw")
    except Exception as ex:  # noqa: BLE001
        anom.append(f"view:raises:{type(ex).__name__}")
    for seq, what in ((nodes, "node"), (edges, "edge"), (nak, "nattr"), (eak, "eattr")):
        real = [x for x in seq if x != UNKNOWN]
        if len(set(real)) != len(real):
            anom.append(f"ambiguous-{what}-labels")
    j = {"nodes": nodes, "edges": edges, "tail": tail, "head": head, "nout": nout, "nin": nin,
         "nak": nak, "eak": eak, "nattr": nattr, "eattr": eattr, "gattr": gattr,
         "uid": peek_uid(H), "frozen": bool(H.is_frozen)}
    return j, sorted(set(anom))


def build(j, g, cls=xgi.DiHypergraph):
    H = cls()
    for n, a in zip(j["nak"], j["nattr"]):
        H.add_node(g.node(n), **g.attrs(a, "n"))
    with warnings.catch_warnings():
        warnings.simplefilter("ignore")
        for e, t, h, a in zip(j["edges"], j["tail"], j["head"], j["eattr"]):
            H.add_edge(([g.node(n) for n in t], [g.node(n) for n in h]), idx=g.edge(e), **g.attrs(a, "e"))
    for k, v in g.attrs(j["gattr"], "g").items():
        H[k] = v
    H._edge_uid = itertools.count(j["uid"])
    if j["frozen"]:
        H.freeze()
    return H


def call(H, op, g, rng=None):
    rng = rng or random.Random(0)
    name = op["name"]
    newg = g
    N, E, A = g.node, g.edge, g.attrs

    def side(m):
        return hg._present([N(x) for x in m], rng)

    def pair(t, h):
        p = (side(t), side(h))
        return p if rng.random() < 0.6 else list(p)

    def odd(d, last):
        if op["b4"] and last:
            return None
        return list(d.items()) if op["b2"] else d

    def ebunch(fmt, items):
        out = []
        for it in items:
            m = pair(it["m"], it["h"])
            if fmt == 1:
                out.append(m)
            elif fmt == 2:
                out.append((m, E(it["id"])))
            elif fmt == 3:
                out.append((m, odd(A(it["a"], "e"), it is items[-1])))
            elif fmt == 4:
                out.append((m, E(it["id"]), odd(A(it["a"], "e"), it is items[-1])))
        if fmt == 5:
            # a caller may well reuse one set object for several sides
            shared = {}

            def side5(m):
                key = frozenset(m)
                if rng.random() < 0.5 and -1 not in m:
                    if key not in shared:
                        shared[key] = {N(x) for x in m}
                        hg._HANDED.append(shared[key])
                    return shared[key]
                return side(m)
            return {E(it["id"]): (side5(it["m"]), side5(it["h"])) for it in items}
        return out if rng.random() < 0.7 else iter(out)

    hg.begin_call()
    with warnings.catch_warnings(record=True) as wlist:
        warnings.simplefilter("always")
        try:
            if name == "add_node":
                H.add_node(N(op["n"]), **A(op["a"], "n"))
            elif name == "add_nodes_from":
                if op["fmt"] == 1:
                    arg = [N(it["id"]) for it in op["items"]]
                else:
                    arg = [(N(it["id"]), ([5] if (op["b4"] and it is op["items"][-1]) else
                                         list(A(it["a"], "n").items()) if op["b2"] else A(it["a"], "n"))) for it in op["items"]]
                H.add_nodes_from(hg.present_ids(arg, rng) if op["fmt"] == 1 else (arg if rng.random() < 0.6 else iter(arg)),
                                 **A(op["a"], "n"))
            elif name == "remove_node":
                H.remove_node(N(op["n"]), strong=op["b1"], remove_empty=op["b2"])
            elif name == "remove_nodes_from":
                H.remove_nodes_from(hg.present_ids([N(x) for x in op["ns"]], rng), strong=op["b1"], remove_empty=op["b2"])
            elif name in ("set_node_attributes", "set_edge_attributes"):
                tbl = "n" if name == "set_node_attributes" else "e"
                L = N if tbl == "n" else E
                f = getattr(H, name)
                fmt = op["fmt"]
                if fmt == 1:
                    f(g.attr_value(op["v"], tbl), name=ATTR_KEYS[op["k"]])
                elif fmt == 2:
                    f({L(i): g.attr_value(v, tbl) for i, v in op["kv"]}, name=ATTR_KEYS[op["k"]])
                elif fmt == 3:
                    f({L(i): A(a, tbl) for i, a in op["kd"]})
                else:
                    f(5)
            elif name == "add_edge":
                if op["b3"]:
                    H.add_edge({frozenset(N(x) for x in op["m"]), frozenset(N(x) for x in op["h"])}, idx=E(op["id"]))
                else:
                    H.add_edge(pair(op["m"], op["h"]), idx=E(op["id"]), **A(op["a"], "e"))
            elif name == "add_edges_from":
                H.add_edges_from(ebunch(op["fmt"], op["items"]), **A(op["a"], "e"))
            elif name == "remove_edge":
                H.remove_edge(E(op["e"]))
            elif name == "remove_edges_from":
                H.remove_edges_from(hg.present_ids([E(x) for x in op["ns"]], rng))
            elif name == "add_node_to_edge":
                H.add_node_to_edge(E(op["e"]), N(op["n"]), op["s1"])
            elif name == "remove_node_from_edge":
                H.remove_node_from_edge(E(op["e"]), N(op["n"]), op["s1"], remove_empty=op["b1"])
            elif name == "clear":
                H.clear(remove_net_attr=op["b1"])
            elif name == "cleanup":
                H.cleanup(isolates=op["b1"], relabel=op["b5"], in_place=True)
                if op["b5"]:
                    newg = g.after_relabel()
            elif name == "convert_labels_to_integers":
                xgi.convert_labels_to_integers(H, in_place=True)
                newg = g.after_relabel()
            elif name == "set_net_attr":
                H[ATTR_KEYS[op["k"]]] = g.attr_value(op["v"], "g")
            elif name == "freeze":
                H.freeze()
            else:
                raise NotImplementedError(name)
            res = "ok"
        except NotImplementedError:
            raise
        except BaseException as ex:  # noqa: BLE001
            if isinstance(ex, (KeyboardInterrupt, SystemExit)):
                raise
            res = classify(ex)
    hg.end_call()
    return res, len(wlist), newg


# ---------------------------------------------------------------------------
# random ops
# ---------------------------------------------------------------------------
def rand_op(rng, j, nn=6):
    from .drive_hg import rand_attr, rand_id, rand_item_attr, rand_members

    nodes, edges = j["nodes"], j["edges"]
    names = [
        ("add_node", 3), ("add_nodes_from", 2), ("remove_node", 6), ("remove_nodes_from", 2),
        ("set_node_attributes", 1.5), ("set_edge_attributes", 1.5), ("add_edge", 12), ("add_edges_from", 10),
        ("remove_edge", 4), ("remove_edges_from", 2), ("add_node_to_edge", 5), ("remove_node_from_edge", 5),
        ("clear", 0.3), ("cleanup", 1.5), ("convert_labels_to_integers", 0.7), ("set_net_attr", 0.4),
    ]
    name = rng.choices([n for n, _ in names], [w for _, w in names])[0]
    anynode = lambda: rng.randrange(nn) if rng.random() < 0.35 or not nodes else rng.choice(nodes)  # noqa: E731
    # tuple ids are not used as explicit ids here: DiHypergraph.add_edges_from takes a tuple in second
    # position for the head (format sniffing), so such ids are outside the documented bulk formats
    def rid():
        x = rand_id(rng, j)
        return x if x < 1000 else 3

    anyedge = lambda: rid() if rng.random() < 0.25 or not edges else rng.choice(edges)  # noqa: E731
    if name in ("add_node", "add_nodes_from", "remove_node", "remove_nodes_from", "set_node_attributes",
                "set_edge_attributes", "remove_edge", "remove_edges_from", "clear", "set_net_attr",
                "convert_labels_to_integers"):
        from . import drive_hg

        op = drive_hg.rand_op(rng, j, nn, force=name)
        op["h"] = []
        return op
    if name == "add_edge":
        if rng.random() < 0.03:
            return mkop(name, m=[0], h=[1], b3=True)
        return mkop(name, m=rand_members(rng, nn), h=rand_members(rng, nn),
                    id=-1 if rng.random() < 0.55 else rid(), a=rand_attr(rng))
    if name == "add_edges_from":
        fmt = rng.choice([1, 1, 2, 3, 4, 4, 5])
        its = []
        for _ in range(rng.choice([0, 1, 2, 2, 3, 4])):
            it = item(m=rand_members(rng, nn, allow_none=rng.random() < 0.3), id=rid() if fmt in (2, 4, 5) else -1,
                      a=rand_item_attr(rng) if fmt in (3, 4) else [])
            it["h"] = rand_members(rng, nn, allow_none=rng.random() < 0.2)
            if fmt == 5 and rng.random() < 0.4:  # equal sides / equal tails across items: candidates for shared objects
                it["h"] = list(it["m"]) if rng.random() < 0.5 or not its else list(its[-1]["m"])
            its.append(it)
        if fmt == 5:
            seen, u = set(), []
            for it in its:
                if it["id"] not in seen:
                    seen.add(it["id"])
                    u.append(it)
            its = u
        odd = fmt in (3, 4) and its and rng.random() < 0.08
        return mkop(name, fmt=fmt, items=its, a=rand_attr(rng), b2=bool(odd))
    if name == "add_node_to_edge":
        return mkop(name, e=-1 if rng.random() < 0.03 else anyedge(), n=-1 if rng.random() < 0.03 else anynode(),
                    s1=rng.choice(["in", "out", "in", "out", "both"]))
    if name == "remove_node_from_edge":
        e, n, d = anyedge(), anynode(), rng.choice(["in", "out", "in", "out", "both"])
        if e in edges and rng.random() < 0.75 and d in ("in", "out"):
            mem = (j["tail"] if d == "in" else j["head"])[edges.index(e)]
            if mem:
                n = rng.choice(mem)
        return mkop(name, e=e, n=n, s1=d, b1=rng.random() < 0.6)
    if name == "cleanup":
        return mkop(name, b1=rng.random() < 0.5, b5=rng.random() < 0.5)
    return mkop(name)
