"""C15: simpliciality measures match their combinatorial definitions (spec/TraceC15.tla)."""
import json
import math
import random
import warnings
from concurrent.futures import ProcessPoolExecutor

import xgi

from . import common, hg, nets, obscore
from .c12 import frac
from .common import log
from .gamma import Gamma


def val(x):
    x = float(x)
    return [0, 0] if math.isnan(x) else frac(x)


def observe(H, sizes=(1, 2, 3)):
    out, errs = [], []
    for ms in sizes:
        for ex in (True, False):
            for norm in (True, False):
                with warnings.catch_warnings():
                    warnings.simplefilter("ignore")
                    try:
                        out.append({
                            "what": f"min_size={ms},exclude_min_size={ex},normalize={norm}", "ms": ms, "ex": int(ex),
                            "norm": norm,
                            "sed": val(xgi.simplicial_edit_distance(H, min_size=ms, exclude_min_size=ex, normalize=norm)),
                            "es": val(xgi.edit_simpliciality(H, min_size=ms, exclude_min_size=ex)),
                            "mfed": val(xgi.mean_face_edit_distance(H, min_size=ms, exclude_min_size=ex, normalize=norm)),
                            "fes": val(xgi.face_edit_simpliciality(H, min_size=ms, exclude_min_size=ex)),
                            "sf": val(xgi.simplicial_fraction(H, min_size=ms, exclude_min_size=ex)),
                        })
                    except Exception as ex_:  # noqa: BLE001
                        errs.append(f"min_size={ms}.{hg.classify(ex_)}")
    return out, errs


def _worker(args):
    states, base, seed_ = args
    out = []
    for k, j in enumerate(states):
        if not j["nodes"]:
            continue
        # the exact formulas are stated for hypergraphs without repeated edges; range and the value on
        # downward-closed hypergraphs for all of them
        multi = len({tuple(m) for m in j["e2n"]}) != len(j["e2n"])
        rng = random.Random(seed_ * 982451653 + base + k)
        # orderable labels: all ints or all strings; also ints whose set iteration order is not ascending
        g = Gamma(*[("ints", "int"), ("str", "int"), ("descset", "int"), ("collide", "int"), ("negint", "int"),
                    ("tuple", "int")][(base + k) % 6])
        big = len(j["nodes"]) > 7
        if big:
            g = Gamma("ints", "int")  # the other families cover eight labels
        vname, emap = rng.choice(obscore.edge_id_variants(j, rng))
        H = obscore.realise(j, g, rng, shuffle=True, edge_id_map=emap)
        if (base + k) % 7 == 3 and not multi and not big and all(j["e2n"]):
            # the same measures on a SimplicialComplex object (which stores no 0-simplices of its own accord)
            with warnings.catch_warnings():
                warnings.simplefilter("ignore")
                S_ = xgi.SimplicialComplex()
                S_.add_nodes_from(list(H.nodes))
                for e_ in H.edges:
                    S_.add_simplex(list(H._edge[e_]))
            H, vname = S_, "as SimplicialComplex"

            class GS:
                name = g.name
                prev = None
                inv_node = staticmethod(g.inv_node)
                inv_attrs = staticmethod(g.inv_attrs)

                @staticmethod
                def inv_edge(x, _ids={}):
                    return _ids.setdefault(x, len(_ids))
            g = GS()
        st, anom = hg.proj(H, g)
        o, errs = observe(H, sizes=(2,) if big else (1, 2, 3))
        out.append({"rid": f"s{base + k}", "what": f"shape {base + k} ({g.name}/{vname})", "st": st, "obs": o,
                    "multi": multi, "anom": sorted(set(anom + errs))})
        if multi or big or isinstance(H, xgi.SimplicialComplex):
            continue
        # the same object after a count-preserving rewiring (a cache keyed on counts would go stale)
        cand = [(e, n, m) for e in H.edges for n in H._edge[e] for m in H.nodes if m not in H._edge[e]]
        rng.shuffle(cand)
        for e, n, m in cand[:3]:
            K = H.copy()
            ms0 = rng.choice([1, 2, 2, 3])
            observe(K, sizes=(ms0,))  # the same min_size before and after: nothing else may invalidate a cache
            K.remove_node_from_edge(e, n, remove_empty=False)
            K.add_node_to_edge(e, m)
            if len({frozenset(x) for x in K._edge.values()}) != K.num_edges:
                continue
            st2, anom2 = hg.proj(K, g)
            o2, errs2 = observe(K, sizes=(ms0,))
            out.append({"rid": f"s{base + k}.rewired", "what": f"shape {base + k} rewired in place ({g.name}/{vname})", "st": st2,
                        "obs": o2, "multi": False, "anom": sorted(set(anom2 + errs2))})
            break
    return out


BUD = {"quick": {"shapes": {"NN": 4, "ME": 4, "MinSize": 1}, "max_shapes": 900},
       "thorough": {"shapes": {"NN": 5, "ME": 5, "MinSize": 1}, "max_shapes": 40000}}


def run(tier, seed_):
    t = common.Timer()
    b = BUD[tier]
    shapes, mc = obscore.enumerate_shapes("MC_ShapesH", b["shapes"], max_states=None)
    shapes = [j for j in shapes if j["nodes"]]
    rng = random.Random(seed_)

    def closed(j):
        es = {frozenset(m) for m in j["e2n"]}
        return all(frozenset(c) in es for m in es for r_ in range(1, len(m)) for c in __import__("itertools").combinations(sorted(m), r_))

    multi_ = [j for j in shapes if len({tuple(m) for m in j["e2n"]}) != len(j["e2n"])]
    shapes = [j for j in shapes if len({tuple(m) for m in j["e2n"]}) == len(j["e2n"])]
    if len(shapes) > b["max_shapes"]:
        shapes = rng.sample(shapes, b["max_shapes"])
    # with repeated edges: every downward closed one, and a sample of the rest
    mc_ = [j for j in multi_ if closed(j)]
    mo_ = [j for j in multi_ if not closed(j)]
    shapes += mc_[: b["max_shapes"] // 3] + rng.sample(mo_, min(len(mo_), b["max_shapes"] // 6))
    # hand-made and random larger shapes: maximal edges overlapping in three or more nodes, nested families
    extra_members = [[list(range(13)), [0, 1], [0, 1, 2], [3, 4, 5, 6], [11, 12], [5]],   # a maximal face too large to enumerate casually
                     [[0, 1, 2, 3], [0, 1, 2, 4], [0, 1, 3, 4]], [[0, 1, 2, 3], [0, 1, 2, 4], [0, 1, 3, 4], [0, 2], [3]],
                     [[0, 1, 2, 3, 4], [0, 1, 2, 3, 5], [0, 1, 2, 4, 5], [0, 1]], [[0, 1, 2, 3], [0, 1, 2, 4], [0, 1, 3, 4], [0, 2, 3, 4]],
                     # downward closed, with interactions recorded more than once
                     [[0, 1, 2], [0, 1], [0, 2], [1, 2], [0], [1], [2], [0, 1, 2]],
                     [[0, 1], [0], [1], [0, 1], [1]],
                     [[0, 1, 2, 3], [0, 1, 2, 4], [0, 2], [1, 2]], [[0, 1, 2, 3], [0, 1, 2, 4], [0, 1, 2], [0, 1], [2]],
                     [[0, 1, 2, 3, 4], [0, 1, 2, 5], [1, 2], [0, 2], [3, 4]], [[0, 1, 2], [1, 2, 3], [2, 3, 4], [1, 2], [2, 3]],
                     [[0, 1, 2, 3], [1, 2, 3], [0, 1, 2], [0, 1, 3], [0, 2, 3]]]
    for _ in range(12 if tier == "quick" else 400):
        ms_ = {tuple(sorted(rng.sample(range(6), rng.choice([1, 2, 2, 3, 3, 4])))) for _ in range(rng.randrange(3, 8))}
        extra_members.append([list(m) for m in sorted(ms_)])
    for mem in extra_members:
        nodes_ = sorted({n for m in mem for n in m})
        shapes.append({"nodes": nodes_, "edges": list(range(len(mem))), "e2n": mem,
                       "n2e": [[k for k, m in enumerate(mem) if n in m] for n in nodes_], "nak": nodes_, "eak": list(range(len(mem))),
                       "nattr": [[] for _ in nodes_], "eattr": [[] for _ in mem], "gattr": [], "uid": len(mem), "frozen": False})
    jobs = common.NCPU
    recs = []
    with ProcessPoolExecutor(max_workers=jobs) as ex:
        for part in ex.map(_worker, [(shapes[i::jobs], i * 100003, seed_) for i in range(jobs) if shapes[i::jobs]]):
            recs += part
    log(f"[C15] {sum(len(r['obs']) for r in recs)} parameter settings on {len(recs)} hypergraphs ({sum(1 for r in recs if r['multi'])} with repeated edges) ({t():.0f}s)")

    def selftest(records, bad):
        r0 = next(r for r in records if r["rid"] not in bad and not r["multi"] and any(e["sed"][1] != 0 and e["sed"][0] > 0 for e in r["obs"]))
        m = json.loads(json.dumps(r0))
        m["rid"] = "selftest"
        e = next(e for e in m["obs"] if e["sed"][1] != 0 and e["sed"][0] > 0 and not e["norm"])
        e["sed"] = [e["sed"][0] + 1, e["sed"][1]]  # one redundant missing face counted twice
        v = common.validate_records([m], "TraceC15")
        if not v.get("selftest"):
            raise common.MachineryError("C15 self-test did not fire")
        return {"corrupted_records": 1, "rejected": 1}

    samples = [{"rid": r["rid"], "what": r["what"], "members": r["st"]["e2n"], "first_setting": r["obs"][0] if r["obs"] else None}
               for r in recs[:: max(1, len(recs) // 5)]][:5]
    return obscore.report(
        "C15", tier, seed_, t, records=recs, trace_module="TraceC15", mc_stats=mc,
        rule="inputs = every TLC-enumerated hypergraph without repeated edges on at most 4 (quick) / 5 (thorough) nodes "
             "with at most 4 / 5 edges, realised with int or string labels, edge-id relabellings, shuffled insertion "
             "order; x min_size in 1..3 x exclude_min_size x normalize; distinct = (sorted edge sizes, #nodes)",
        samples=samples, selftest=selftest,
        class_of=lambda r: (len(r["st"]["nodes"]), tuple(sorted(len(m) for m in r["st"]["e2n"]))),
        assumptions=["floats are matched to the unique small rational within 1e-9 before TLC compares exactly"])
