"""pytest plugin (active only with XGI_VERIF_TRACE=1): records the projected state after every
outermost mutating call that the repository's own tests make on the three network classes.
The records are validated by TLC (TraceInvH / TraceInvD): the model's invariants replace the
tests' own, weaker assertions.  Lives in /verif; nothing in /repo is changed."""
import functools
import json
import os
import threading

ACTIVE = os.environ.get("XGI_VERIF_TRACE") == "1"
OUT = os.environ.get("XGI_VERIF_TRACE_OUT", "/tmp/xgi_trace.ndjson")
MUTATORS = [
    "add_node", "add_nodes_from", "remove_node", "remove_nodes_from", "add_edge", "add_edges_from",
    "add_weighted_edges_from", "remove_edge", "remove_edges_from", "add_node_to_edge", "remove_node_from_edge",
    "double_edge_swap", "random_edge_shuffle", "clear", "clear_edges", "update", "merge_duplicate_edges", "cleanup",
    "add_simplex", "add_simplices_from", "add_weighted_simplices_from", "remove_simplex_id", "remove_simplex_ids_from",
    "close", "set_node_attributes", "set_edge_attributes", "__init__", "copy", "__setstate__",
]
_depth = threading.local()
_state = {"n": 0, "seen": set(), "fh": None, "test": ""}
# inherited Hypergraph mutators are documented not to keep a simplicial complex closed
NOT_CLOSING = {"double_edge_swap", "random_edge_shuffle", "clear_edges", "remove_node_from_edge", "merge_duplicate_edges",
               "update", "remove_edge", "remove_edges_from"}


def _emit(obj, cls, call, ok):
    from harness import dhg, hg
    from harness.c04prov import AnyGamma

    if len(obj._node) > 12 or len(obj._edge) > 20 or _state["n"] >= 60000:
        return
    g = AnyGamma()
    try:
        j, anom = (dhg.proj if cls == "DH" else hg.proj)(obj, g)
    except Exception as ex:  # noqa: BLE001
        j, anom = None, [f"projection:{type(ex).__name__}"]
    if j is None:
        return
    j["nattr"] = [[] for _ in j["nattr"]]
    j["eattr"] = [[] for _ in j["eattr"]]
    j["gattr"] = []
    key = json.dumps([cls, j, anom], sort_keys=True)
    if key in _state["seen"]:
        return
    _state["seen"].add(key)
    _state["n"] += 1
    rec = {"rid": f"t{_state['n']}", "cls": cls, "call": call, "ok": ok, "test": _state["test"], "post": j, "anom": anom,
           "closed": not getattr(obj, "_verif_unclosed", False)}
    _state["fh"].write(json.dumps(rec) + "\n")


def _wrap(klass, name, cls):
    orig = klass.__dict__.get(name)
    if orig is None or not callable(orig):
        return

    @functools.wraps(orig)
    def wrapper(self, *a, **kw):
        d = getattr(_depth, "v", 0)
        _depth.v = d + 1
        ok = False
        try:
            r = orig(self, *a, **kw)
            ok = True
            return r
        finally:
            _depth.v = d
            if d == 0:
                try:
                    if name in NOT_CLOSING:
                        self.__dict__["_verif_unclosed"] = True
                    import xgi

                    real = "SC" if isinstance(self, xgi.SimplicialComplex) else (
                        "DH" if isinstance(self, xgi.DiHypergraph) else "H")
                    _emit(self, real, name, ok)
                except Exception:  # noqa: BLE001 - tracing must never change a test's outcome
                    pass
    setattr(klass, name, wrapper)


def pytest_configure(config):
    if not ACTIVE:
        return
    import xgi

    _state["fh"] = open(OUT, "w")
    for klass, cls in ((xgi.Hypergraph, "H"), (xgi.DiHypergraph, "DH"), (xgi.SimplicialComplex, "SC")):
        for name in MUTATORS:
            _wrap(klass, name, cls)


def pytest_runtest_setup(item):
    if ACTIVE:
        _state["test"] = item.nodeid


def pytest_unconfigure(config):
    if ACTIVE and _state["fh"]:
        _state["fh"].close()
