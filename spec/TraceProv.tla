------------------------------ MODULE TraceProv ------------------------------
(***************************************************************************)
(* C04, provenance part: however a network was obtained (constructor input   *)
(* types, from_* converters, read_* functions, generators, copies, pickles,   *)
(* relabelling, derived networks), its next automatic id is fresh, adding    *)
(* automatically keeps every edge it had, and an explicit id that exists is   *)
(* refused with a warning and no change.  Record                             *)
(*   [rid, how, kind, pre, post, warn]  kind: "obtained" | "add" | "dup"      *)
(* (pre = post for "obtained").  Class agnostic: J records are compared.      *)
(***************************************************************************)
EXTENDS Nets, Json, IOUtils
Recs == ndJsonDeserialize(IOEnv.TRACE_FILE)
VARIABLE i

Verdict(r) ==
  IF r.anom # <<>> THEN <<"C04:anomaly." \o r.anom[1]>>
  ELSE (IF UidFreshJ(r.post) THEN <<>> ELSE <<"C04:UidFresh">>)
    \o (IF r.kind = "add" /\ ~(KeepsEdgesJ(r.pre, r.post) /\ Len(r.post.edges) >= Len(r.pre.edges) + 1
                               /\ Core(r.pre) # Core(r.post))
          THEN <<"C04:AddsPreserve">> ELSE <<>>)
    \o (IF r.kind = "dup" /\ (Core(r.post) # Core(r.pre) \/ r.warn = 0) THEN <<"C04:DupRefused">> ELSE <<>>)

Init == i = 0
Next == i < Len(Recs) /\ i' = i + 1
Spec == Init /\ [][Next]_i
Report == i = 0 \/ LET v == Verdict(Recs[i])
                   IN v = <<>> \/ PrintT(ToJson([rid |-> Recs[i].rid, v |-> v]))
Done == PrintT(ToJson([consumed |-> TLCGet("stats").diameter - 1, total |-> Len(Recs)]))
=============================================================================
