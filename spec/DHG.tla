--------------------------------- MODULE DHG --------------------------------
(***************************************************************************)
(* Directed hypergraph (xgi.DiHypergraph).  State record, implementation    *)
(* shaped (the incidence relation is stored twice and per direction):       *)
(*   nodes, edges : insertion order                                         *)
(*   tail, head   : edge -> set of nodes   (H._edge[e]["in"] / ["out"])    *)
(*   nout, nin    : node -> set of edges   (H._node[n]["out"] / ["in"])    *)
(*                  n \in tail[e] <=> e \in nout[n];  n \in head[e] <=> e \in nin[n] *)
(*   nattr, eattr, gattr, uid, frozen as in HG                              *)
(***************************************************************************)
EXTENDS XgiBase

IntLike(e) == e >= 0 /\ e < 100
Bump(u, e) == IF IntLike(e) /\ e >= u THEN e + 1 ELSE u

EmptyDHG == [nodes |-> <<>>, edges |-> <<>>, tail |-> <<>>, head |-> <<>>, nout |-> <<>>, nin |-> <<>>,
             nattr |-> <<>>, eattr |-> <<>>, gattr |-> <<>>, uid |-> 0, frozen |-> FALSE]

NodeSet(S) == Range(S.nodes)
EdgeSet(S) == Range(S.edges)

FromJ(j) ==
  [nodes |-> j.nodes, edges |-> j.edges,
   tail  |-> [e \in Range(j.edges) |-> Range(j.tail[Idx(j.edges, e)])],
   head  |-> [e \in Range(j.edges) |-> Range(j.head[Idx(j.edges, e)])],
   nout  |-> [n \in Range(j.nodes) |-> Range(j.nout[Idx(j.nodes, n)])],
   nin   |-> [n \in Range(j.nodes) |-> Range(j.nin[Idx(j.nodes, n)])],
   nattr |-> [n \in Range(j.nak) |-> AttrOf(j.nattr[Idx(j.nak, n)])],
   eattr |-> [e \in Range(j.eak) |-> AttrOf(j.eattr[Idx(j.eak, e)])],
   gattr |-> AttrOf(j.gattr), uid |-> j.uid, frozen |-> j.frozen]

ToJ(S) ==
  [nodes |-> S.nodes, edges |-> S.edges,
   tail  |-> [i \in DOMAIN S.edges |-> SortSeqOf(S.tail[S.edges[i]])],
   head  |-> [i \in DOMAIN S.edges |-> SortSeqOf(S.head[S.edges[i]])],
   nout  |-> [i \in DOMAIN S.nodes |-> SortSeqOf(S.nout[S.nodes[i]])],
   nin   |-> [i \in DOMAIN S.nodes |-> SortSeqOf(S.nin[S.nodes[i]])],
   nak   |-> S.nodes, eak |-> S.edges,
   nattr |-> [i \in DOMAIN S.nodes |-> AttrJ(S.nattr[S.nodes[i]])],
   eattr |-> [i \in DOMAIN S.edges |-> AttrJ(S.eattr[S.edges[i]])],
   gattr |-> AttrJ(S.gattr), uid |-> S.uid, frozen |-> S.frozen]

(* ---- invariants (C02) --------------------------------------------------------- *)
DiIntegrityClauses(S) ==
  << <<"nodes.nodup",  NoDup(S.nodes) /\ NoDup(S.edges)>>,
     <<"nout.domain",  DOMAIN S.nout = NodeSet(S) /\ DOMAIN S.nin = NodeSet(S)>>,
     <<"tail.domain",  DOMAIN S.tail = EdgeSet(S) /\ DOMAIN S.head = EdgeSet(S)>>,
     <<"nattr.domain", DOMAIN S.nattr = NodeSet(S)>>,
     <<"eattr.domain", DOMAIN S.eattr = EdgeSet(S)>>,
     <<"members.are.nodes", (\A e \in DOMAIN S.tail : S.tail[e] \subseteq NodeSet(S))
                             /\ (\A e \in DOMAIN S.head : S.head[e] \subseteq NodeSet(S))>>,
     <<"memberships.are.edges", (\A n \in DOMAIN S.nout : S.nout[n] \subseteq EdgeSet(S))
                                 /\ (\A n \in DOMAIN S.nin : S.nin[n] \subseteq EdgeSet(S))>>,
     <<"tail->out", \A e \in DOMAIN S.tail : \A n \in S.tail[e] : n \in DOMAIN S.nout /\ e \in S.nout[n]>>,
     <<"out->tail", \A n \in DOMAIN S.nout : \A e \in S.nout[n] : e \in DOMAIN S.tail /\ n \in S.tail[e]>>,
     <<"head->in",  \A e \in DOMAIN S.head : \A n \in S.head[e] : n \in DOMAIN S.nin /\ e \in S.nin[n]>>,
     <<"in->head",  \A n \in DOMAIN S.nin : \A e \in S.nin[n] : e \in DOMAIN S.head /\ n \in S.head[e]>>,
     <<"no.None",   None \notin NodeSet(S) /\ None \notin EdgeSet(S)>> >>

FirstFailing(cl) == IF \A i \in DOMAIN cl : cl[i][2] THEN "ok"
                    ELSE cl[CHOOSE i \in DOMAIN cl : ~cl[i][2] /\ \A k \in DOMAIN cl : k < i => cl[k][2]][1]
DiIntegrity(S) == \A i \in DOMAIN DiIntegrityClauses(S) : DiIntegrityClauses(S)[i][2]
UidFresh(S) == \A e \in EdgeSet(S) : IntLike(e) => e < S.uid
Struct(S) == <<S.nodes, S.edges, S.tail, S.head, S.nout, S.nin>>

(* ---- results -------------------------------------------------------------------- *)
Ok(S) == [st |-> S, res |-> "ok", warn |-> 0]
OkW(S, w) == [st |-> S, res |-> "ok", warn |-> w]
LibErr(S) == [st |-> S, res |-> "liberr", warn |-> 0]
OtherErr(S, name) == [st |-> S, res |-> name, warn |-> 0]

RunBulk(Step(_, _), S, items) ==
  FoldL(LAMBDA acc, it :
          IF acc[Len(acc)].res # "ok" THEN acc
          ELSE LET r == Step(acc[Len(acc)].st, it)
               IN Append(acc, [r EXCEPT !.warn = @ + acc[Len(acc)].warn]),
        <<Ok(S)>>, items)
BulkOutcomes(acc) ==
  LET last == acc[Len(acc)]
  IN IF last.res = "ok" THEN {last}
     ELSE {[st |-> acc[j].st, res |-> last.res, warn |-> acc[j].warn] : j \in 1..(Len(acc) - 1)}
Det(acc) == acc[Len(acc)]

(* ---- primitives ------------------------------------------------------------------ *)
AddNodesOrd(S, X, ord) ==
  LET new == SelectSeq(ord, LAMBDA n : n \in X /\ n \notin NodeSet(S))
      NS  == Range(new)
      ext(f, d) == [n \in (DOMAIN f) \cup NS |-> IF n \in DOMAIN f THEN f[n] ELSE d]
  IN [S EXCEPT !.nodes = @ \o new, !.nout = ext(@, {}), !.nin = ext(@, {}), !.nattr = ext(@, NoAttr)]

PutEdge(S, e, T, Hd, a, ord) ==
  LET S1 == AddNodesOrd(S, T \cup Hd, ord)
  IN [S1 EXCEPT !.edges = Append(@, e), !.tail = Put(@, e, T), !.head = Put(@, e, Hd),
                !.nout = [n \in DOMAIN @ |-> IF n \in T THEN @[n] \cup {e} ELSE @[n]],
                !.nin = [n \in DOMAIN @ |-> IF n \in Hd THEN @[n] \cup {e} ELSE @[n]],
                !.eattr = Put(@, e, a)]

DelEdges(S, D) ==
  [S EXCEPT !.edges = Without(@, D), !.tail = Drop(@, D), !.head = Drop(@, D), !.eattr = Drop(@, D),
            !.nout = [n \in DOMAIN @ |-> @[n] \ D], !.nin = [n \in DOMAIN @ |-> @[n] \ D]]

DelNodeRec(S, n) ==
  [S EXCEPT !.nodes = Without(@, {n}), !.nout = Drop(@, {n}), !.nin = Drop(@, {n}), !.nattr = Drop(@, {n})]

(* ---- nodes ------------------------------------------------------------------------ *)
AddNode(S, n, a) ==
  IF n = None THEN LibErr(S)
  ELSE LET S1 == AddNodesOrd(S, {n}, <<n>>) IN Ok([S1 EXCEPT !.nattr[n] = Upd(@, a)])

AddNodesFrom(S, fmt, items, kw) ==
  BulkOutcomes(RunBulk(LAMBDA T, it : AddNode(T, it.id, IF fmt = 1 THEN kw ELSE Upd(kw, AttrOf(it.a))), S, items))

\* weak: n leaves both sides of its edges, edges left with both sides empty go iff
\* remove_empty; strong: every incident edge goes, also from the other members' tables
RemoveNode(S, n, strong, removeEmpty) ==
  IF n \notin NodeSet(S) THEN LibErr(S)
  ELSE LET E  == S.nout[n] \cup S.nin[n]
           S1 == DelNodeRec(S, n)
       IN IF strong THEN Ok(DelEdges(S1, E))
          ELSE LET S2 == [S1 EXCEPT !.tail = [e \in DOMAIN @ |-> @[e] \ {n}],
                                    !.head = [e \in DOMAIN @ |-> @[e] \ {n}]]
                   dead == IF removeEmpty THEN {e \in E : S2.tail[e] = {} /\ S2.head[e] = {}} ELSE {}
               IN Ok(DelEdges(S2, dead))

RemoveNodesFrom(S, ns, strong, removeEmpty) ==
  Det(RunBulk(LAMBDA T, n : IF n \in NodeSet(T) THEN RemoveNode(T, n, strong, removeEmpty) ELSE OkW(T, 1), S, ns))

SetAttrs(tbl, ids, fmt, k, v, kv, kd) ==
  CASE fmt = 1 -> [st |-> [i \in DOMAIN tbl |-> Put(tbl[i], k, v)], w |-> 0]
    [] fmt = 2 -> FoldL(LAMBDA acc, p : IF p[1] \in ids THEN [acc EXCEPT !.st[p[1]] = Put(@, k, p[2])]
                                        ELSE [acc EXCEPT !.w = @ + 1], [st |-> tbl, w |-> 0], kv)
    [] fmt = 3 -> FoldL(LAMBDA acc, p : IF p[1] \in ids THEN [acc EXCEPT !.st[p[1]] = Upd(@, AttrOf(p[2]))]
                                        ELSE [acc EXCEPT !.w = @ + 1], [st |-> tbl, w |-> 0], kd)
SetNodeAttributes(S, fmt, k, v, kv, kd) ==
  IF fmt = 4 THEN LibErr(S)
  ELSE LET r == SetAttrs(S.nattr, NodeSet(S), fmt, k, v, kv, kd) IN OkW([S EXCEPT !.nattr = r.st], r.w)
SetEdgeAttributes(S, fmt, k, v, kv, kd) ==
  IF fmt = 4 THEN LibErr(S)
  ELSE LET r == SetAttrs(S.eattr, EdgeSet(S), fmt, k, v, kv, kd) IN OkW([S EXCEPT !.eattr = r.st], r.w)

(* ---- edges -------------------------------------------------------------------------- *)
AddEdgeDet(S, t, h, id, a, ord) ==
  LET e == IF id = None THEN S.uid ELSE id
      u == IF id = None THEN S.uid + 1 ELSE Bump(S.uid, id)
  IN Ok([PutEdge(S, e, Range(t), Range(h), a, ord) EXCEPT !.uid = u])

\* t, h: sequences (tail, head); pair = FALSE: the edge was not given as a (tail, head)
\* list or tuple.  A present explicit id and a None member may be detected in either order.
AddEdge(S, t, h, pair, id, a, ord) ==
  IF ~pair THEN {LibErr(S)}
  ELSE IF id # None /\ id \in EdgeSet(S)
    THEN {OkW(S, 1)} \cup (IF None \in Range(t) \cup Range(h) THEN {LibErr(S)} ELSE {})
  ELSE IF None \in Range(t) \cup Range(h) THEN {LibErr(S)}
  ELSE {AddEdgeDet(S, t, h, id, a, ord)}

\* items: [m (tail), h (head), id, a]; formats as in Hypergraph.add_edges_from
AddEdgesFrom(S, fmt, items, kw, ord) ==
  BulkOutcomes(RunBulk(
    LAMBDA T, it :
      LET id == IF fmt \in {1, 3} THEN None ELSE it.id
          a  == CASE fmt \in {1, 2} -> kw [] fmt \in {3, 4} -> Upd(kw, AttrOf(it.a)) [] OTHER -> NoAttr
      IN IF id # None /\ id \in EdgeSet(T) THEN OkW(T, 1)
         ELSE IF None \in Range(it.m) \cup Range(it.h) THEN LibErr(T)
         ELSE AddEdgeDet(T, it.m, it.h, id, a, ord),
    S, items))

RemoveEdge(S, e) == IF e \notin EdgeSet(S) THEN LibErr(S) ELSE Ok(DelEdges(S, {e}))
RemoveEdgesFrom(S, es) == BulkOutcomes(RunBulk(LAMBDA T, e : RemoveEdge(T, e), S, es))

\* direction "in": the node joins the tail; "out": the head
AddNodeToEdge(S, e, n, dir) ==
  IF dir \notin {"in", "out"} THEN {LibErr(S)}
  ELSE IF e = None THEN {LibErr(S)}
  ELSE LET S1 == IF e \in EdgeSet(S) THEN S
                 ELSE [S EXCEPT !.edges = Append(@, e), !.tail = Put(@, e, {}), !.head = Put(@, e, {}),
                                !.eattr = Put(@, e, NoAttr), !.uid = Bump(@, e)]
       IN IF n = None THEN {LibErr(S), LibErr(S1)}
          ELSE LET S2 == AddNodesOrd(S1, {n}, <<n>>)
               IN {Ok(IF dir = "in" THEN [S2 EXCEPT !.tail[e] = @ \cup {n}, !.nout[n] = @ \cup {e}]
                      ELSE [S2 EXCEPT !.head[e] = @ \cup {n}, !.nin[n] = @ \cup {e}])}

RemoveNodeFromEdge(S, e, n, dir, removeEmpty) ==
  IF dir \notin {"in", "out"} THEN LibErr(S)
  ELSE IF e \notin EdgeSet(S) \/ n \notin NodeSet(S) THEN LibErr(S)
  ELSE IF n \notin (IF dir = "in" THEN S.tail[e] ELSE S.head[e]) THEN LibErr(S)
  ELSE LET S1 == IF dir = "in" THEN [S EXCEPT !.tail[e] = @ \ {n}, !.nout[n] = @ \ {e}]
                 ELSE [S EXCEPT !.head[e] = @ \ {n}, !.nin[n] = @ \ {e}]
       IN Ok(IF S1.tail[e] = {} /\ S1.head[e] = {} /\ removeEmpty THEN DelEdges(S1, {e}) ELSE S1)

Clear(S, removeNetAttr) ==
  Ok([S EXCEPT !.nodes = <<>>, !.edges = <<>>, !.tail = <<>>, !.head = <<>>, !.nout = <<>>, !.nin = <<>>,
               !.nattr = <<>>, !.eattr = <<>>, !.gattr = IF removeNetAttr THEN NoAttr ELSE @])

LabelKey == 9
ConvertLabels(S) ==
  LET nn == Len(S.nodes)  mm == Len(S.edges)
      newN(n) == Idx(S.nodes, n) - 1
      newE(e) == Idx(S.edges, e) - 1
      oldN(i) == S.nodes[i + 1]
      oldE(j) == S.edges[j + 1]
  IN [nodes |-> [i \in 1..nn |-> i - 1], edges |-> [j \in 1..mm |-> j - 1],
      nout |-> [i \in 0..(nn - 1) |-> {newE(e) : e \in S.nout[oldN(i)]}],
      nin  |-> [i \in 0..(nn - 1) |-> {newE(e) : e \in S.nin[oldN(i)]}],
      tail |-> [j \in 0..(mm - 1) |-> {newN(n) : n \in S.tail[oldE(j)]}],
      head |-> [j \in 0..(mm - 1) |-> {newN(n) : n \in S.head[oldE(j)]}],
      nattr |-> [i \in 0..(nn - 1) |-> Put(S.nattr[oldN(i)], LabelKey, LabelVal(oldN(i)))],
      eattr |-> [j \in 0..(mm - 1) |-> Put(S.eattr[oldE(j)], LabelKey, LabelVal(oldE(j)))],
      gattr |-> S.gattr, uid |-> mm, frozen |-> S.frozen]

Isolates(S) == SelectSeq(S.nodes, LAMBDA n : S.nout[n] = {} /\ S.nin[n] = {})

Cleanup(S, isolates, relabel) ==
  LET s1 == IF isolates THEN S
            ELSE Det(RunBulk(LAMBDA T, n : RemoveNode(T, n, FALSE, TRUE), S, Isolates(S))).st
  IN Ok(IF relabel THEN ConvertLabels(s1) ELSE s1)

(* ---- dispatcher ------------------------------------------------------------------------ *)
OpDefaults ==
  [name |-> "", n |-> None, n2 |-> None, e |-> None, e2 |-> None, m |-> <<>>, h |-> <<>>, id |-> None,
   a |-> <<>>, b1 |-> FALSE, b2 |-> FALSE, b3 |-> FALSE, b4 |-> FALSE, b5 |-> FALSE,
   items |-> <<>>, fmt |-> 0, k |-> 0, v |-> <<2>>, s1 |-> "", s2 |-> "",
   ns |-> <<>>, kv |-> <<>>, kd |-> <<>>]

StructuralOps ==
  {"add_node", "add_nodes_from", "remove_node", "remove_nodes_from", "add_edge", "add_edges_from",
   "remove_edge", "remove_edges_from", "add_node_to_edge", "remove_node_from_edge", "clear", "cleanup",
   "convert_labels_to_integers"}

Unfrozen(S, op, ord) ==
  CASE op.name = "add_node" -> {AddNode(S, op.n, AttrOf(op.a))}
    [] op.name = "add_nodes_from" -> AddNodesFrom(S, op.fmt, op.items, AttrOf(op.a))
    [] op.name = "remove_node" -> {RemoveNode(S, op.n, op.b1, op.b2)}
    [] op.name = "remove_nodes_from" -> {RemoveNodesFrom(S, op.ns, op.b1, op.b2)}
    [] op.name = "set_node_attributes" -> {SetNodeAttributes(S, op.fmt, op.k, op.v, op.kv, op.kd)}
    [] op.name = "set_edge_attributes" -> {SetEdgeAttributes(S, op.fmt, op.k, op.v, op.kv, op.kd)}
    [] op.name = "add_edge" -> AddEdge(S, op.m, op.h, ~op.b3, op.id, AttrOf(op.a), ord)
    [] op.name = "add_edges_from" -> AddEdgesFrom(S, op.fmt, op.items, AttrOf(op.a), ord)
    [] op.name = "remove_edge" -> {RemoveEdge(S, op.e)}
    [] op.name = "remove_edges_from" -> RemoveEdgesFrom(S, op.ns)
    [] op.name = "add_node_to_edge" -> AddNodeToEdge(S, op.e, op.n, op.s1)
    [] op.name = "remove_node_from_edge" -> {RemoveNodeFromEdge(S, op.e, op.n, op.s1, op.b1)}
    [] op.name = "clear" -> {Clear(S, op.b1)}
    [] op.name = "cleanup" -> {Cleanup(S, op.b1, op.b5)}
    [] op.name = "convert_labels_to_integers" -> {Ok(ConvertLabels(S))}
    [] op.name = "set_net_attr" -> {Ok([S EXCEPT !.gattr = Put(@, op.k, op.v)])}
    [] op.name = "freeze" -> {Ok([S EXCEPT !.frozen = TRUE])}
    \* the history continues on a copy / constructor copy / pickle while the original is edited behind its back
    [] op.name = "fork" -> {Ok(IF op.s1 = "constructor" THEN [S EXCEPT !.uid = 0] ELSE S)}  \* a rebuilt network starts from the ids it holds

Outcomes(S, op, ord) ==
  IF S.frozen /\ op.name \in StructuralOps
    THEN {LibErr(S)} \cup {o \in Unfrozen(S, op, ord) : Struct(o.st) = Struct(S) /\ o.res = "ok"}
    ELSE Unfrozen(S, op, ord)

\* attribute entries of the bulk formats that are not dicts (key/value pairs, None): not documented; only
\* the invariants of every reachable state are required afterwards
Unspecified(S, op) == op.name \in {"add_edges_from", "add_nodes_from"} /\ (op.b2 \/ op.b4)

AddOps == {"add_edge", "add_edges_from", "add_node_to_edge"}
AddsPreserve(S, T) ==
  /\ \A e \in EdgeSet(S) : e \in EdgeSet(T) /\ T.eattr[e] = S.eattr[e]
  /\ Only(T.edges, EdgeSet(S)) = S.edges
AddsPreserveMembers(S, T) == \A e \in EdgeSet(S) : T.tail[e] = S.tail[e] /\ T.head[e] = S.head[e]
=============================================================================
