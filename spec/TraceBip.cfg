SPECIFICATION Spec
INVARIANT Report
POSTCONDITION Done
CHECK_DEADLOCK FALSE
