------------------------------ MODULE TraceC06 ------------------------------
(***************************************************************************)
(* C06: views and statistics are live and mutually consistent.              *)
(* Record: [rid, post (J form), obs] where obs was read, after the call,    *)
(* from view and stat objects created at the START of the history (held     *)
(* across all mutations) and from fresh ones.                               *)
(***************************************************************************)
EXTENDS Derived, Json, IOUtils
Recs == ndJsonDeserialize(IOEnv.TRACE_FILE)
VARIABLE i

Firsts(p) == [k \in DOMAIN p |-> p[k][1]]
Seconds(p) == [k \in DOMAIN p |-> p[k][2]]

Clauses(S, o) ==
  << <<"view.nodes.held", o.vn = S.nodes>>, <<"view.edges.held", o.ve = S.edges>>,
     <<"view.nodes.fresh", o.vn2 = S.nodes>>, <<"view.edges.fresh", o.ve2 = S.edges>>,
     <<"degree.asdict", o.deg = PairsOf(S.nodes, SeqDegree(S))>>,
     <<"degree.aslist", o.degl = SeqDegree(S)>>,
     <<"degree.asnumpy", o.degn = SeqDegree(S)>>,
     <<"degree.aspandas", o.degpi = S.nodes /\ o.degpv = SeqDegree(S)>>,
     <<"degree.order", \A k \in DOMAIN o.dego : o.dego[k][2] = SeqDegreeOrd(S, o.dego[k][1])>>,
     <<"size.asdict", o.size = PairsOf(S.edges, SeqSize(S))>>,
     <<"size.aslist", o.sizel = SeqSize(S)>>,
     <<"order.aslist", o.ordl = [k \in DOMAIN S.edges |-> SizeOf(S, S.edges[k]) - 1]>>,
     <<"size.degree_arg", \A k \in DOMAIN o.sized :
          /\ o.sized[k][2] = [j \in DOMAIN S.edges |-> Cardinality({n \in S.e2n[S.edges[j]] : Degree(S, n) = o.sized[k][1]})]
          /\ o.sized[k][3] = [j \in DOMAIN S.edges |-> Cardinality({n \in S.e2n[S.edges[j]] : Degree(S, n) = o.sized[k][1]}) - 1]>>,
     <<"size.aspandas", o.sizepi = S.edges /\ o.sizepv = SeqSize(S)>>,
     <<"handshake", SumSeq(o.degl) = SumSeq(o.sizel)>>,
     <<"multi.asdict", o.multid = [k \in DOMAIN S.nodes |-> <<S.nodes[k], <<Degree(S, S.nodes[k]), DegreeOrd(S, S.nodes[k], 1)>> >>]>>,
     <<"multi.aslist", o.multil = [k \in DOMAIN S.nodes |-> <<Degree(S, S.nodes[k]), DegreeOrd(S, S.nodes[k], 1)>>]>>,
     <<"multi.asnumpy", o.multin = o.multil>>,
     <<"multi.aspandas", o.multipi = S.nodes /\ o.multipv = o.multil>>,
     <<"filterby.degree", \A k \in DOMAIN o.filt :
          o.filt[k][4] = FilterNodesByDegree(S, o.filt[k][1], o.filt[k][2], o.filt[k][3])>>,
     <<"filterby.size", \A k \in DOMAIN o.filte :
          o.filte[k][4] = FilterEdgesBySize(S, o.filte[k][1], o.filte[k][2], o.filte[k][3])>>,
     <<"filterby_attr", \A k \in DOMAIN o.fattr :
          o.fattr[k][6] = FilterNodesByAttr(S, o.fattr[k][1], 1, o.fattr[k][2], o.fattr[k][3], o.fattr[k][5])>>,
     <<"neighbors.nodes", \A k \in DOMAIN o.nbr : Range(o.nbr[k][3]) = NodeNbrs(S, o.nbr[k][1], o.nbr[k][2])>>,
     <<"neighbors.edges", \A k \in DOMAIN o.enbr : Range(o.enbr[k][3]) = EdgeNbrs(S, o.enbr[k][1], o.enbr[k][2])>>,
     <<"lookup", \A k \in DOMAIN o.lookup : o.lookup[k][2] = Lookup(S, Range(o.lookup[k][1]))>>,
     <<"lookup.nodes", \A k \in DOMAIN o.nlookup :
          o.nlookup[k][2] = SelectSeq(S.nodes, LAMBDA n : S.n2e[n] = Range(o.nlookup[k][1]))>>,
     <<"duplicates", ~o.dupsasked \/ DuplicatesOK(S, o.dups)>>,
     <<"isolates", o.iso = IsolatesOf(S, FALSE) /\ o.isoig = IsolatesOf(S, TRUE)>>,
     <<"singletons", o.single = SingletonsOf(S)>>,
     <<"empty", o.empty = EmptyOf(S)>>,
     <<"maximal", o.max = MaximalOf(S, FALSE)>>,
     <<"attrs.edges", o.eattrs = <<>> \/
          o.eattrs[2] = [k \in DOMAIN S.edges |-> <<S.edges[k], AttrScalar(S.eattr[S.edges[k]], 1, o.eattrs[1])>>]>>,
     <<"filterby_attr.edges", \A k \in DOMAIN o.efattr :
          o.efattr[k][5] = SelectSeq(S.edges, LAMBDA e : LET x == AttrScalar(S.eattr[e], 1, o.efattr[k][4])
                                                        IN x # Absent /\ x # -1000 /\ Cmp(o.efattr[k][1], x, o.efattr[k][2], o.efattr[k][3]))>>,
     <<"subviews", LET b == o.sub IN Len(b) = 11 /\
          /\ b[11][1] = SelectSeq(b[5], LAMBDA e : SizeOf(S, e) = 1) /\ b[11][2] = SelectSeq(b[5], LAMBDA e : SizeOf(S, e) = 0)
          /\ b[11][3] = SelectSeq(b[2], LAMBDA n : S.n2e[n] = {}) /\ b[11][4] = b[11][1]
          /\ b[9][2] = SelectSeq(b[2], LAMBDA n : Degree(S, n) >= b[9][1])
          /\ b[10][2] = SelectSeq(b[5], LAMBDA e : SizeOf(S, e) <= b[10][1])
          /\ b[2] = Only(S.nodes, Range(b[1])) /\ b[3] = [k \in DOMAIN b[2] |-> Degree(S, b[2][k])]
          /\ b[5] = Only(S.edges, Range(b[4])) /\ b[6] = [k \in DOMAIN b[5] |-> SizeOf(S, b[5][k])]
          /\ Len(b[7]) = Len(b[5]) /\ (\A k \in DOMAIN b[5] : Range(b[7][k]) = S.e2n[b[5][k]])
          /\ b[8] = <<Len(b[2]), Len(b[5])>>>>,
     <<"aggregates", o.agg = <<>> \/
          LET d == SeqDegree(S) IN
          /\ o.agg[1] = MaxOf(Range(d)) /\ o.agg[2] = MinOf(Range(d)) /\ o.agg[3] = SumSeq(d)
          /\ o.agg[4] = ArgBest(S.nodes, d, LAMBDA a, b : a > b) /\ o.agg[5] = ArgBest(S.nodes, d, LAMBDA a, b : a < b)
          /\ o.argsort = StableSort(S.nodes, d) /\ REq(o.mean, Rat(SumSeq(d), Len(d)))>>,
     <<"properties", o.props = <<>> \/
          /\ o.props[1] = UniqueEdgeSizes(S) /\ o.props[2] = <<MaxEdgeOrder(S)>> /\ o.props[3] = <<IsUniform(S)>>
          /\ o.props[4] = [k \in 1..4 |-> NumEdgesOrder(S, k - 1)] /\ o.props[5] = <<NumEdgesOrder(S, None)>>
          /\ o.props[6] = DegreeCounts(S)
          /\ \A k \in DOMAIN o.enb : LET n == o.enb[k][1] IN
                Len(o.enb[k][2]) = Degree(S, n) /\
                \A X \in {S.e2n[e] \ {n} : e \in S.n2e[n]} \cup {Range(o.enb[k][2][q]) : q \in DOMAIN o.enb[k][2]} :
                   Cardinality({q \in DOMAIN o.enb[k][2] : Range(o.enb[k][2][q]) = X})
                     = Cardinality({e \in S.n2e[n] : S.e2n[e] \ {n} = X})>>,
     <<"maximal.strict", o.maxs = MaximalOf(S, TRUE)>> >>

Verdict(r) ==
  \* a public view that disagrees with the tables it is a view of (members, memberships, ids, counts)
  IF r.viewanom # <<>> THEN <<"C06:" \o r.viewanom[1]>> ELSE
  \* the tables hold what the caller put into its own container after the call returned (the harness, as a caller,
  \* changes every container it handed over): views and statistics then describe something no call built.
  \* Other states that cannot be projected (labels created by calls outside the documented domain) are skipped.
  IF \E k \in DOMAIN r.postanom : r.postanom[k] = "unknown-node-label:'__caller_owned__'"
    THEN <<"C06:state-holds-the-callers-own-container">> ELSE
  IF r.postanom # <<>> THEN <<"tainted">> ELSE
  \* an accessor of a view / statistic raised: reported as such (its placeholder value is not compared)
  IF r.obs.errs # <<>> THEN <<"C06:raised." \o r.obs.errs[1]>> ELSE
  LET S == FromJ(r.post) IN
  \* an inconsistent network is some mutator's fault (C01-C03), but C06's own statement "the degrees sum to
  \* the sizes" speaks of every reachable state and needs no reference to the tables
  IF ~Integrity(S) THEN (IF SumSeq(r.obs.degl) = SumSeq(r.obs.sizel) THEN <<"tainted">> ELSE <<"C06:degrees-do-not-sum-to-sizes">>)
  ELSE LET cl == Clauses(S, r.obs)
           bad == SelectSeq([k \in DOMAIN cl |-> k], LAMBDA k : ~cl[k][2])
       IN [k \in DOMAIN bad |-> "C06:" \o cl[bad[k]][1]]

Init == i = 0
Next == i < Len(Recs) /\ i' = i + 1
Spec == Init /\ [][Next]_i
Report == i = 0 \/ LET v == Verdict(Recs[i])
                   IN v = <<>> \/ PrintT(ToJson([rid |-> Recs[i].rid, v |-> v]))
Done == PrintT(ToJson([consumed |-> TLCGet("stats").diameter - 1, total |-> Len(Recs)]))
=============================================================================
