------------------------------- MODULE Utils -------------------------------
(***************************************************************************)
(* Growth beyond the listed properties: the set-theoretic helper functions  *)
(* of xgi.utils (powerset, subfaces, dual_dict, find_triangles,              *)
(* binomial_sequence, min_where, Trie, pairwise_incidence, banerjee_coeff)   *)
(* and the parametrised global measures of xgi.algorithms.properties        *)
(* (density / incidence_density with order, max_order, ignore_singletons,    *)
(* degree_histogram, degree_counts(order), is_possible_order,                *)
(* edge_neighborhood), as a direct transcription of their documentation.     *)
(* SC.tla's closure (AddFaces) and the simpliciality measures are defined    *)
(* from the same notions; here the helpers themselves are bound to the code. *)
(***************************************************************************)
EXTENDS Derived

NoneArg == -9   \* an optional argument left at None

\* strictly increasing index tuples of length r over 1..n, in lexicographic order
IncIdx(n, r) == {q \in [1..r -> 1..n] : \A a, b \in 1..r : a < b => q[a] < q[b]}
LexLess(p, q) == \E k \in DOMAIN p : (\A m \in 1..(k - 1) : p[m] = q[m]) /\ p[k] < q[k]
RECURSIVE LexSorted(_)
LexSorted(Q) == IF Q = {} THEN <<>>
                ELSE LET m == CHOOSE p \in Q : \A q \in Q \ {p} : LexLess(p, q)
                     IN <<m>> \o LexSorted(Q \ {m})
\* itertools.combinations(s, r): subsequences of s, positions in lexicographic order
Combos(s, r) == IF r < 0 \/ r > Len(s) THEN <<>>
                ELSE IF r = 0 THEN << <<>> >>
                ELSE LET ix == LexSorted(IncIdx(Len(s), r)) IN [k \in DOMAIN ix |-> [m \in 1..r |-> s[ix[k][m]]]]
RECURSIVE ConcatRange(_, _, _)
ConcatRange(f(_), lo, hi) == IF lo > hi THEN <<>> ELSE f(lo) \o ConcatRange(f, lo + 1, hi)

\* powerset(iterable, include_empty, include_full, include_singletons, max_size)
Powerset(s, inclEmpty, inclFull, inclSingle, maxSize) ==
  LET start == IF inclEmpty THEN 0 ELSE IF inclSingle THEN 1 ELSE 2
      mx == IF maxSize = NoneArg THEN (IF inclFull THEN Len(s) ELSE Len(s) - 1)
            ELSE IF maxSize < Len(s) THEN maxSize ELSE Len(s)
  IN ConcatRange(LAMBDA r : Combos(s, r), start, mx)

\* subfaces(edges, order): per edge of size > 1, in the order of the edges
MaxOrderOf(edges) == MaxOf({Len(edges[k]) : k \in DOMAIN edges}) - 1
SubfacesRejected(edges, order) == order # NoneArg /\ order > 0 /\ order > MaxOrderOf(edges)
RECURSIVE Subfaces(_, _)
Subfaces(edges, order) ==
  IF edges = <<>> THEN <<>>
  ELSE LET e == Head(edges)
           f == IF Len(e) <= 1 THEN <<>>
                ELSE IF order = NoneArg THEN Powerset(e, FALSE, FALSE, TRUE, NoneArg)
                ELSE IF order = -1 THEN Combos(e, Len(e) - 1)
                ELSE Combos(e, order + 1)
       IN f \o Subfaces(Tail(edges), order)

\* dual_dict: edge id -> members  becomes  node -> ids
DualDict(ids, mem) ==
  LET nodes == UNION {Range(mem[k]) : k \in DOMAIN mem}
  IN [n \in nodes |-> {ids[k] : k \in {k \in DOMAIN ids : n \in Range(mem[k])}}]

\* find_triangles on a graph given by its node set and links (2-sets)
Triangles3(V, L) == {T \in SUBSET V : Cardinality(T) = 3 /\ \A a, b \in T : a # b => {a, b} \in L}

\* binomial_sequence(k, N): 0/1 strings of length N with k ones
BinomialSequence(k, N) == {f \in [1..N -> {0, 1}] : SumSeq(f) = k}

\* banerjee_coeff(size, max_size): number of blow-ups of an edge of that size to max_size
\* = surjections from max_size positions onto the members
Banerjee(size, r) == Cardinality({f \in [1..r -> 1..size] : Range(f) = 1..size})

\* pairwise_incidence: (i, j), i <= j (sorted), to the edges containing both
PairInc(ids, mem) ==
  LET has(k, n) == n \in Range(mem[k])
      pairs == UNION {{<<a, b>> : a, b \in Range(mem[k])} : k \in DOMAIN mem}
  IN [p \in {p \in pairs : p[1] <= p[2]} |-> {ids[k] : k \in {k \in DOMAIN ids : has(k, p[1]) /\ has(k, p[2])}}]

\* Trie of node sets: search(word) iff the same set was inserted
TrieSearch(words, q) == \E k \in DOMAIN words : Range(words[k]) = Range(q)

\* min_where(values, where): INF coded as -1
MinWhere(vals, where) == LET S == {vals[k] : k \in {k \in DOMAIN vals : where[k] /\ vals[k] >= 0}}
                         IN IF S = {} THEN -1 ELSE MinOf(S)

RECURSIVE Choose(_, _)
Choose(n, k) == IF k < 0 \/ k > n THEN 0 ELSE IF k = 0 THEN 1 ELSE Choose(n - 1, k - 1) + Choose(n - 1, k)
OrdOf(S, e) == SizeOf(S, e) - 1
\* density(H, order, max_order, ignore_singletons) as documented; results: <<"val", rational>>,
\* <<"valueerror">>, <<"liberr">>
DensityP(S, order, maxOrder, ignoreS) ==
  LET n == Len(S.nodes)
      cnt(P(_)) == Cardinality({e \in EdgeSet(S) : P(e)})
      single == cnt(LAMBDA e : OrdOf(S, e) = 0)
      val(a, b) == <<"val", IF b = 0 THEN <<0, 1>> ELSE Rat(a, b)>>
  IN IF n < 1 THEN <<"liberr">>
     ELSE IF S.edges = <<>> THEN <<"val", <<0, 1>>>>
     ELSE IF order = NoneArg /\ maxOrder = NoneArg
       THEN val(Len(S.edges) - (IF ignoreS THEN single ELSE 0), 2 ^ n - 1 - (IF ignoreS THEN n ELSE 0))
     ELSE IF order = NoneArg
       THEN IF maxOrder >= n THEN <<"valueerror">>
            ELSE val(cnt(LAMBDA e : OrdOf(S, e) <= maxOrder) - (IF ignoreS THEN single ELSE 0),
                     SumSeq([d \in 1..(maxOrder + 1) |-> Choose(n, d)]) - (IF ignoreS THEN n ELSE 0))
     ELSE IF order >= n THEN <<"valueerror">>
     ELSE IF ignoreS /\ order = 0 THEN <<"val", <<0, 1>>>>
     ELSE val(cnt(LAMBDA e : OrdOf(S, e) = order), Choose(n, order + 1))

IncDensityP(S, order, maxOrder, ignoreS) ==
  LET n == Len(S.nodes)
      sel == IF order = NoneArg /\ maxOrder = NoneArg
               THEN {e \in EdgeSet(S) : ~ignoreS \/ OrdOf(S, e) > 0}
             ELSE IF order = NoneArg
               THEN {e \in EdgeSet(S) : OrdOf(S, e) <= maxOrder /\ (~ignoreS \/ OrdOf(S, e) > 0)}
             ELSE {e \in EdgeSet(S) : OrdOf(S, e) = order}
      tot == SumSet(LAMBDA e : SizeOf(S, e), sel)
  IN IF n < 1 THEN <<"liberr">>
     ELSE IF S.edges = <<>> THEN <<"val", <<0, 1>>>>
     ELSE IF order = NoneArg /\ maxOrder # NoneArg /\ maxOrder >= n THEN <<"valueerror">>
     ELSE IF order # NoneArg /\ order >= n THEN <<"valueerror">>
     ELSE IF order # NoneArg /\ ignoreS /\ order = 0 THEN <<"val", <<0, 1>>>>
     ELSE <<"val", IF sel = {} THEN <<0, 1>> ELSE Rat(tot, n * Cardinality(sel))>>

\* degree_histogram: observed degrees ascending, and how many nodes have each
DegreeHistogram(S) ==
  LET ds == SortSeqOf({Degree(S, n) : n \in NodeSet(S)})
  IN <<ds, [k \in DOMAIN ds |-> Cardinality({n \in NodeSet(S) : Degree(S, n) = ds[k]})]>>
\* degree_counts(H, order): frequencies of the degrees 0..max, degrees counted in edges of that order
DegreeCountsOrd(S, order) ==
  LET deg(n) == IF order = NoneArg THEN Degree(S, n) ELSE DegreeOrd(S, n, order)
      mx == MaxOf({deg(n) : n \in NodeSet(S)})
  IN [d \in 1..(mx + 1) |-> Cardinality({n \in NodeSet(S) : deg(n) = d - 1})]
IsPossibleOrder(S, d) == d >= 0 /\ d <= MaxEdgeOrder(S)
\* edge_neighborhood(H, n, include_self): one member set per edge of n, in the order of n's memberships
EdgeNeighborhood(S, n, inclSelf) == {<<e, IF inclSelf THEN S.e2n[e] ELSE S.e2n[e] \ {n}>> : e \in S.n2e[n]}

\* numeric summaries of a statistic given as the sequence d of its (integer) values, exact rationals
RSumSeq(q) == FoldL(LAMBDA acc, x : RAdd(acc, x), <<0, 1>>, q)
RECURSIVE IPow(_, _)
IPow(x, k) == IF k = 0 THEN 1 ELSE x * IPow(x, k - 1)
RPow(x, k) == <<IPow(x[1], k), IPow(x[2], k)>>
MeanOf(d) == Rat(SumSeq(d), Len(d))
RawMoment(d, k) == Rat(SumSeq([j \in DOMAIN d |-> IPow(d[j], k)]), Len(d))
CentralMoment(d, k) == LET m == MeanOf(d)
                       IN RDiv(RSumSeq([j \in DOMAIN d |-> RPow(RAdd(<<d[j], 1>>, <<-m[1], m[2]>>), k)]), <<Len(d), 1>>)
VarianceOf(d) == CentralMoment(d, 2)
MedianOf(d) == LET q == SortSeq(d, LAMBDA a, b : a < b)  n == Len(d)
               IN IF n % 2 = 1 THEN <<q[(n + 1) \div 2], 1>> ELSE Rat(q[n \div 2] + q[n \div 2 + 1], 2)
CountOf(d, v) == Cardinality({j \in DOMAIN d : d[j] = v})
\* the smallest of the most frequent values
ModeOf(d) == MinOf({v \in Range(d) : \A w \in Range(d) : CountOf(d, v) >= CountOf(d, w)})
UniqueCounts(d) == LET u == SortSeqOf(Range(d)) IN <<u, [j \in DOMAIN u |-> CountOf(d, u[j])]>>

\* ttsv1 / ttsv2 (xgi.utils.tensor): the adjacency tensor of rank r of a non-uniform hypergraph
\* (Banerjee et al.) contracted with one vector a in all modes but one / but two.  Every edge with
\* member set M contributes |M| / Banerjee(|M|, r) to each of its blow-ups, the r-tuples over M
\* in which every member occurs; nodes are the positions 0..n-1, a is given as a sequence.
ProdSeq(q) == FoldL(LAMBDA acc, x : acc * x, 1, q)
BlowSum(M, prefix, r, a) ==
  LET rest == r - Len(prefix)
      T == {t \in [1..rest -> M] : Range(t) \cup Range(prefix) = M}
  IN SumSet(LAMBDA t : ProdSeq([j \in 1..rest |-> a[t[j] + 1]]), T)
TensorContract(mem, r, a, prefix) ==
  RSumSeq([k \in DOMAIN mem |->
            LET M == Range(mem[k]) IN
            IF ~(Range(prefix) \subseteq M) THEN <<0, 1>>
            ELSE Rat(Cardinality(M) * BlowSum(M, prefix, r, a), Banerjee(Cardinality(M), r))])
TTSV1(mem, n, r, a) == [i \in 1..n |-> TensorContract(mem, r, a, <<i - 1>>)]
TTSV2(mem, n, r, a) == [i \in 1..n |-> [j \in 1..n |-> TensorContract(mem, r, a, <<i - 1, j - 1>>)]]

\* hist(vals, bins, bin_edges, density) / stat.ashist(...) with linear binning, for integer values d:
\* an integer number of bins b splits [min, max] evenly (a statistic with one distinct value gets one
\* bin), a list gives the edges; a bin holds lo <= v < hi, the last one also v = hi
RLeq(a, b) == a[1] * b[2] <= b[1] * a[2]
RLess(a, b) == a[1] * b[2] < b[1] * a[2]
HistEdgesInt(d, b) == LET lo == MinOf(Range(d))  hi == MaxOf(Range(d))
                      IN [k \in 1..(b + 1) |-> Rat(lo * b + (hi - lo) * (k - 1), b)]
HistCounts(d, E) ==
  [k \in 1..(Len(E) - 1) |->
     Cardinality({j \in DOMAIN d : RLeq(E[k], <<d[j], 1>>)
                    /\ (RLess(<<d[j], 1>>, E[k + 1]) \/ (k = Len(E) - 1 /\ REq(<<d[j], 1>>, E[k + 1])))})]
HistCenters(E) == [k \in 1..(Len(E) - 1) |-> RDiv(RAdd(E[k], E[k + 1]), <<2, 1>>)]
\* density: count / (number of counted values * bin width)
HistDensity(d, E) == LET c == HistCounts(d, E)  tot == SumSeq(c)
                     IN [k \in DOMAIN c |-> RDiv(<<c[k], 1>>, RMul(<<tot, 1>>, RAdd(E[k + 1], <<-E[k][1], E[k][2]>>)))]

\* views restricted to a bunch, and their set algebra: always the network's ids, in the network's
\* order, restricted to the resulting set; a bunch naming an unknown id is refused
ViewIds(all, B) == Only(all, B)
ViewAlgebra(all, A, B) ==
  << ViewIds(all, A \cap B), ViewIds(all, A \cup B), ViewIds(all, A \ B), ViewIds(all, (A \ B) \cup (B \ A)) >>
=============================================================================
