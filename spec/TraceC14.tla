------------------------------ MODULE TraceC14 ------------------------------
(***************************************************************************)
(* C14: graph-reducible algorithms against independent definitions:         *)
(* components = closure of the node-edge bipartite relation (HG!Components), *)
(* distances = iterated neighbourhoods in the clique expansion               *)
(* (Derived!DistFrom), clustering = 2T / (k (k-1)) of the pairwise           *)
(* projection, and the vertex / link sets of the four derived graphs.        *)
(***************************************************************************)
EXTENDS Derived, Json, IOUtils
Recs == ndJsonDeserialize(IOEnv.TRACE_FILE)
VARIABLE i

SetOfSets(q) == {Range(q[k]) : k \in DOMAIN q}
PairSet(q) == {{q[k][1], q[k][2]} : k \in DOMAIN q}
Nb(S, n) == NodeNbrs(S, n, 1)
Triangles(S, n) == Cardinality({p \in Nb(S, n) \X Nb(S, n) : p[1] < p[2] /\ p[2] \in Nb(S, p[1])})
Clustering(S, n) == LET k == Cardinality(Nb(S, n)) IN IF k < 2 THEN <<0, 1>> ELSE Rat(2 * Triangles(S, n), k * (k - 1))
Inter(S, e, f) == Cardinality(S.e2n[e] \cap S.e2n[f])
LineLinks(S, s) == {{e, f} : e \in EdgeSet(S), f \in EdgeSet(S)} \cap
                   {X \in SUBSET EdgeSet(S) : Cardinality(X) = 2 /\ \A e \in X : \A f \in X \ {e} : Inter(S, e, f) >= s}
MinOf2(a, b) == IF a < b THEN a ELSE b
Encaps(S, x, y, immediate) ==
  /\ S.e2n[y] # {} /\ S.e2n[y] \subseteq S.e2n[x] /\ S.e2n[y] # S.e2n[x]
  /\ (immediate => SizeOf(S, x) = SizeOf(S, y) + 1)

\* "empirical": only the subsets of maximum existing size.  The library additionally prunes on the
\* superset side, in an order dependent way; the two passes cannot interact when all proper supersets
\* of every edge have one size, and only then is the result specified here.
SupersetSizes(S, y) == {SizeOf(S, x) : x \in {z \in EdgeSet(S) : Encaps(S, z, y, FALSE)}}
EmpiricalDefined(S) == \A y \in EdgeSet(S) : Cardinality(SupersetSizes(S, y)) <= 1
EmpiricalArcs(S) == {p \in EdgeSet(S) \X EdgeSet(S) : Encaps(S, p[1], p[2], FALSE) /\
                       \A z \in EdgeSet(S) : Encaps(S, p[1], z, FALSE) => SizeOf(S, z) <= SizeOf(S, p[2])}

Clauses(S, o) ==
  << <<"components", SetOfSets(o.comps) = Components(S) /\ Len(o.comps) = Cardinality(Components(S))>>,
     <<"components.partition", (UNION SetOfSets(o.comps)) = NodeSet(S)
                               /\ SumSeq([k \in DOMAIN o.comps |-> Len(o.comps[k])]) = Len(S.nodes)>>,
     <<"number_connected_components", o.ncomp = Cardinality(Components(S))>>,
     <<"is_connected", S.nodes = <<>> \/ (o.isconn <=> IsConnected(S))>>,
     <<"largest_connected_component", S.nodes = <<>> \/ Range(o.lcc) \in LargestComponents(S)>>,
     <<"node_connected_component", \A k \in DOMAIN o.ncc : Range(o.ncc[k][2]) = Component(S, o.ncc[k][1])>>,
     <<"shortest_path_length", \A k \in DOMAIN o.dist :
          LET src == o.dist[k][1]  d == DistFrom(S, src) IN
          /\ {o.dist[k][2][q][1] : q \in DOMAIN o.dist[k][2]} = NodeSet(S)
          /\ \A q \in DOMAIN o.dist[k][2] : LET t == o.dist[k][2][q][1]  v == o.dist[k][2][q][2]
                                           IN IF t \in DOMAIN d THEN v = d[t] ELSE v = -1>>,
     <<"clustering_coefficient", \A k \in DOMAIN o.clust : REq(o.clust[k][2], Clustering(S, o.clust[k][1]))>>,
     <<"to_graph", Range(o.gnodes) = NodeSet(S) /\
          PairSet(o.glinks) = {X \in SUBSET NodeSet(S) : Cardinality(X) = 2 /\ \A a \in X : \A b \in X \ {a} : b \in Nb(S, a)}>>,
     <<"to_line_graph", \A k \in DOMAIN o.line :
          LET e == o.line[k] IN
          /\ Range(e.nodes) = EdgeSet(S) /\ PairSet(e.links) = LineLinks(S, e.s) /\ Len(e.links) = Cardinality(LineLinks(S, e.s))
          /\ \A q \in DOMAIN e.links :
               LET a == e.links[q][1]  b == e.links[q][2]  w == e.links[q][3] IN
               CASE e.w = "none" -> TRUE
                 [] e.w = "absolute" -> REq(w, <<Inter(S, a, b), 1>>)
                 [] e.w = "normalized" -> REq(w, Rat(Inter(S, a, b), MinOf2(SizeOf(S, a), SizeOf(S, b))))>>,
     <<"to_bipartite_graph", o.bipn = Len(S.nodes) + Len(S.edges) /\
          {<<o.biplinks[k][1], o.biplinks[k][2]>> : k \in DOMAIN o.biplinks} =
             {p \in NodeSet(S) \X EdgeSet(S) : p[1] \in S.e2n[p[2]]}
          /\ Len(o.biplinks) = SumSeq(SeqSize(S))>>,
     <<"to_bipartite_graph.directed",
          LET T == o.dbip[1]  Hd == o.dbip[2]  A == o.dbip[3] IN
          /\ {<<A[k][1], A[k][2], A[k][3]>> : k \in DOMAIN A} =
               {<<"t", n, k>> : <<n, k>> \in {p \in (UNION {Range(T[k]) : k \in DOMAIN T}) \X DOMAIN T : p[1] \in Range(T[p[2]])}}
               \cup {<<"h", n, k>> : <<n, k>> \in {p \in (UNION {Range(Hd[k]) : k \in DOMAIN Hd}) \X DOMAIN Hd : p[1] \in Range(Hd[p[2]])}}
          /\ Len(A) = Cardinality({<<A[k][1], A[k][2], A[k][3]>> : k \in DOMAIN A})
          /\ o.dbip[4][1] = o.dbip[4][2]>>,
     <<"to_encapsulation_dag", \A k \in DOMAIN o.dag :
          LET e == o.dag[k] IN
          /\ Range(e.nodes) = EdgeSet(S)
          /\ LET A == {<<e.arcs[q][1], e.arcs[q][2]>> : q \in DOMAIN e.arcs} IN
             IF e.kind = "empirical"
               THEN A \subseteq {p \in EdgeSet(S) \X EdgeSet(S) : Encaps(S, p[1], p[2], FALSE)}
                    /\ (EmpiricalDefined(S) => A = EmpiricalArcs(S))
               ELSE A = {p \in EdgeSet(S) \X EdgeSet(S) : Encaps(S, p[1], p[2], e.immediate)}>> >>

Verdict(r) ==
  IF r.anom # <<>> THEN <<"C14:raised." \o r.anom[1]>> ELSE
  LET S == FromJ(r.st) IN
  \* the input was built by the harness through public calls only: if it is not even consistent the
  \* check cannot vouch for the property on it (and some call broke C01 / C03 on the way)
  IF ~Integrity(S) THEN <<"C14:input.not-a-consistent-network">>
  ELSE LET cl == Clauses(S, r.obs)
           bad == SelectSeq([k \in DOMAIN cl |-> k], LAMBDA k : ~cl[k][2])
       IN [k \in DOMAIN bad |-> "C14:" \o cl[bad[k]][1]]

Init == i = 0
Next == i < Len(Recs) /\ i' = i + 1
Spec == Init /\ [][Next]_i
Report == i = 0 \/ LET v == Verdict(Recs[i])
                   IN v = <<>> \/ PrintT(ToJson([rid |-> Recs[i].rid, v |-> v]))
Done == PrintT(ToJson([consumed |-> TLCGet("stats").diameter - 1, total |-> Len(Recs)]))
=============================================================================
