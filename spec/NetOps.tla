-------------------------------- MODULE NetOps -------------------------------
(***************************************************************************)
(* Network -> network operations (C19) as pure operators on HG records.     *)
(* Where the library leaves an order or an id assignment open, the operator *)
(* is stated as a predicate on the result instead of a function.            *)
(***************************************************************************)
EXTENDS Derived

RestrictFn(f, D) == [x \in D |-> f[x]]

\* subhypergraph(H, nodes=N, edges=E, keep_isolates): a frozen view-like network
Sub(S, N, E, keepIsolates) ==
  LET es == SelectSeq(S.edges, LAMBDA e : e \in E /\ S.e2n[e] \subseteq N)
      ES == Range(es)
      n0 == SelectSeq(S.nodes, LAMBDA n : n \in N)
      ns == IF keepIsolates THEN n0 ELSE SelectSeq(n0, LAMBDA n : S.n2e[n] \cap ES # {})
      NS == Range(ns)
  IN [nodes |-> ns, edges |-> es,
      n2e |-> [n \in NS |-> S.n2e[n] \cap ES], e2n |-> RestrictFn(S.e2n, ES),
      nattr |-> RestrictFn(S.nattr, NS), eattr |-> RestrictFn(S.eattr, ES),
      gattr |-> S.gattr, uid |-> 0, frozen |-> TRUE]

\* what must be equal regardless of the id counter
Content(S) == [S EXCEPT !.uid = 0]
SameUpToUid(A, B) == Content(A) = Content(B) /\ UidFresh(B)

\* dual: nodes <-> edges; the dual's edge order is the original node order, its node
\* order is not fixed by the documentation (compared as a set)
IsDual(S, D) ==
  /\ D.edges = S.nodes
  /\ NoDup(D.nodes) /\ Range(D.nodes) = EdgeSet(S)
  /\ DOMAIN D.e2n = NodeSet(S) /\ \A n \in NodeSet(S) : D.e2n[n] = S.n2e[n]
  /\ DOMAIN D.n2e = EdgeSet(S) /\ \A e \in EdgeSet(S) : D.n2e[e] = S.e2n[e]
  /\ D.eattr = S.nattr /\ D.nattr = S.eattr /\ D.gattr = S.gattr
  /\ ~D.frozen

\* H1 << H2: nodes of H1 then the new ones of H2 (H2's attributes win); the edges of H1
\* then those of H2, renumbered 0..; network attributes merged (H2 wins)
Union(A, B) ==
  LET ns == A.nodes \o SelectSeq(B.nodes, LAMBDA n : n \notin NodeSet(A))
      ma == Len(A.edges)  mb == Len(B.edges)
      src(j) == IF j < ma THEN <<1, A.edges[j + 1]>> ELSE <<2, B.edges[j - ma + 1]>>
      mem(j) == IF src(j)[1] = 1 THEN A.e2n[src(j)[2]] ELSE B.e2n[src(j)[2]]
      att(j) == IF src(j)[1] = 1 THEN A.eattr[src(j)[2]] ELSE B.eattr[src(j)[2]]
  IN [nodes |-> ns, edges |-> [j \in 1..(ma + mb) |-> j - 1],
      e2n |-> [j \in 0..(ma + mb - 1) |-> mem(j)],
      n2e |-> [n \in Range(ns) |-> {j \in 0..(ma + mb - 1) : n \in mem(j)}],
      nattr |-> [n \in Range(ns) |-> Upd(IF n \in NodeSet(A) THEN A.nattr[n] ELSE NoAttr,
                                         IF n \in NodeSet(B) THEN B.nattr[n] ELSE NoAttr)],
      eattr |-> [j \in 0..(ma + mb - 1) |-> att(j)],
      gattr |-> Upd(A.gattr, B.gattr), uid |-> ma + mb, frozen |-> FALSE]

\* complement: exactly the absent non-empty node sets up to the maximum edge size, each
\* once, on the same nodes (ids and edge order are not fixed)
MaxSize(S) == IF S.edges = <<>> THEN 0 ELSE MaxOf({SizeOf(S, e) : e \in EdgeSet(S)})
IsComplement(S, C) ==
  /\ C.nodes = S.nodes /\ Integrity(C) /\ UidFresh(C)
  /\ \A e, f \in EdgeSet(C) : C.e2n[e] = C.e2n[f] => e = f
  /\ {C.e2n[e] : e \in EdgeSet(C)} =
       {X \in SUBSET NodeSet(S) : X # {} /\ Cardinality(X) <= MaxSize(S)} \ {S.e2n[e] : e \in EdgeSet(S)}

\* cut_to_order / k_skeleton: exactly the edges up to the order, everything else kept
CutToOrder(S, k) == DelEdges(S, {e \in EdgeSet(S) : SizeOf(S, e) > k + 1})
CutRejected(S, k) == k > MaxSize(S) - 1

\* from_max_simplices: same nodes, the maximal simplices renumbered 0.. in view order
FromMaxSimplices(S) ==
  LET mx == MaximalOf(S, FALSE)  m == Len(mx)
  IN [nodes |-> S.nodes, edges |-> [j \in 1..m |-> j - 1],
      e2n |-> [j \in 0..(m - 1) |-> S.e2n[mx[j + 1]]],
      n2e |-> [n \in NodeSet(S) |-> {j \in 0..(m - 1) : n \in S.e2n[mx[j + 1]]}],
      nattr |-> [n \in NodeSet(S) |-> NoAttr], eattr |-> [j \in 0..(m - 1) |-> NoAttr],
      gattr |-> NoAttr, uid |-> m, frozen |-> FALSE]

\* largest_connected_hypergraph(in_place=False): the sub-network induced by a largest component
IsLargestCC(S, R) ==
  \E C \in LargestComponents(S) :
     Content([Sub(S, C, EdgeSet(S), TRUE) EXCEPT !.frozen = FALSE]) = Content(R) /\ UidFresh(R)

(* ---- cleanup guarantees (checked on the result of any flag combination) ---- *)
NoIsolates(R) == \A n \in NodeSet(R) : R.n2e[n] # {}
NoSingletons(R) == \A e \in EdgeSet(R) : SizeOf(R, e) # 1
NoMultiEdges(R) == \A e, f \in EdgeSet(R) : R.e2n[e] = R.e2n[f] => e = f
Relabelled(R) == R.nodes = [k \in 1..Len(R.nodes) |-> k - 1] /\ R.edges = [k \in 1..Len(R.edges) |-> k - 1]
CleanupGuarantees(R, isolates, singletons, multiedges, connected, relabel) ==
  /\ (~isolates => NoIsolates(R)) /\ (~singletons => NoSingletons(R))
  /\ (~multiedges => NoMultiEdges(R)) /\ (connected => Cardinality(Components(R)) <= 1)
  /\ (relabel => Relabelled(R))

(* ---- DiHypergraph.cleanup(isolates, relabel): plain sequences instead of a state record ---- *)
\* dn / di / dt / dh: nodes, edge ids, tails, heads of the argument; rn / ri / rt / rh: of the result, in the
\* result's own labels; on / oe: the old label of every node / edge of the result (recorded by the
\* relabelling, the labels themselves otherwise)
DiCleanupOK(isolates, relabel, dn, di, dt, dh, rn, ri, rt, rh, on, oe) ==
  LET inc == UNION {Range(dt[k]) \cup Range(dh[k]) : k \in DOMAIN di}
      kept == IF isolates THEN Range(dn) ELSE Range(dn) \cap inc
      old(x) == on[Idx(rn, x)]
  IN /\ NoDup(rn) /\ NoDup(ri) /\ NoDup(on) /\ NoDup(oe)
     /\ Len(on) = Len(rn) /\ Len(oe) = Len(ri)
     /\ Range(on) = kept /\ Range(oe) = Range(di)            \* only isolated nodes are deleted, no edge is
     /\ (relabel => rn = [k \in 1..Len(rn) |-> k - 1] /\ ri = [k \in 1..Len(ri) |-> k - 1])
     /\ (~relabel => rn = on /\ ri = oe)
     /\ \A k \in DOMAIN ri : LET s == Idx(di, oe[k]) IN
          /\ Range(rt[k]) \subseteq Range(rn) /\ Range(rh[k]) \subseteq Range(rn)
          /\ {old(x) : x \in Range(rt[k])} = Range(dt[s]) /\ {old(x) : x \in Range(rh[k])} = Range(dh[s])
=============================================================================
