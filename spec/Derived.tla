------------------------------- MODULE Derived ------------------------------
(***************************************************************************)
(* Set-theoretic definitions of what views, statistics and graph-reducible  *)
(* algorithms must report for an undirected network state S (HG record).    *)
(* These are the oracles of C06, C09, C14, C15: TLC evaluates them on the    *)
(* logged state and compares with the logged answers of the real API.       *)
(***************************************************************************)
EXTENDS HG

(* ---- statistics --------------------------------------------------------- *)
DegreeOrd(S, n, k) == Cardinality({e \in S.n2e[n] : Cardinality(S.e2n[e]) = k + 1})
SizeOf(S, e) == Cardinality(S.e2n[e])
SeqDegree(S) == [i \in DOMAIN S.nodes |-> Degree(S, S.nodes[i])]
SeqDegreeOrd(S, k) == [i \in DOMAIN S.nodes |-> DegreeOrd(S, S.nodes[i], k)]
SeqSize(S) == [i \in DOMAIN S.edges |-> SizeOf(S, S.edges[i])]
PairsOf(ids, vals) == [i \in DOMAIN ids |-> <<ids[i], vals[i]>>]
HandshakeSum(S) == SumSeq(SeqDegree(S)) = SumSeq(SeqSize(S))

(* ---- neighbourhoods ------------------------------------------------------ *)
NodeNbrs(S, n, s) == {m \in NodeSet(S) \ {n} : Cardinality(S.n2e[n] \cap S.n2e[m]) >= s}
EdgeNbrs(S, e, s) == {f \in EdgeSet(S) \ {e} : Cardinality(S.e2n[e] \cap S.e2n[f]) >= s}

(* ---- id selections (all in view order) ------------------------------------ *)
Cmp(mode, x, v, v2) ==
  CASE mode = "eq" -> x = v [] mode = "neq" -> x # v [] mode = "lt" -> x < v [] mode = "gt" -> x > v
    [] mode = "leq" -> x <= v [] mode = "geq" -> x >= v [] mode = "between" -> v <= x /\ x <= v2
FilterNodesByDegree(S, mode, v, v2) == SelectSeq(S.nodes, LAMBDA n : Cmp(mode, Degree(S, n), v, v2))
FilterEdgesBySize(S, mode, v, v2) == SelectSeq(S.edges, LAMBDA e : Cmp(mode, SizeOf(S, e), v, v2))
\* attribute filter on scalar values; ids whose attribute is absent take `missing`
\* (None = -1000: never selected)
Absent == -1000
AttrScalar(a, k, missing) == IF k \in DOMAIN a THEN (IF a[k][1] = 0 THEN a[k][2] ELSE Absent) ELSE missing
FilterNodesByAttr(S, mode, k, v, v2, missing) ==
  SelectSeq(S.nodes, LAMBDA n : LET x == AttrScalar(S.nattr[n], k, missing)
                                IN x # Absent /\ Cmp(mode, x, v, v2))

Lookup(S, M) == SelectSeq(S.edges, LAMBDA e : S.e2n[e] = M)
DupClass(S, e) == {f \in EdgeSet(S) : S.e2n[f] = S.e2n[e]}
\* duplicates(): all ids of every class of equal member sets except one representative
DuplicatesOK(S, D) ==
  /\ Range(D) \subseteq EdgeSet(S) /\ D = Only(S.edges, Range(D))
  /\ \A e \in EdgeSet(S) : Cardinality(DupClass(S, e) \ Range(D)) = 1
IsolatesOf(S, ignoreSingletons) ==
  SelectSeq(S.nodes, LAMBDA n : \A e \in S.n2e[n] : ignoreSingletons /\ SizeOf(S, e) = 1)
SingletonsOf(S) == SelectSeq(S.edges, LAMBDA e : SizeOf(S, e) = 1)
EmptyOf(S) == SelectSeq(S.edges, LAMBDA e : SizeOf(S, e) = 0)
\* maximal: not properly contained in another edge; strict: nor equal to another edge
MaximalOf(S, strict) ==
  SelectSeq(S.edges, LAMBDA e : \A f \in EdgeSet(S) \ {e} :
      ~(S.e2n[e] \subseteq S.e2n[f] /\ (strict \/ S.e2n[e] # S.e2n[f])))

(* ---- global properties (xgi.algorithms.properties) and aggregates ------------ *)
EdgeSizes(S) == {SizeOf(S, e) : e \in EdgeSet(S)}
UniqueEdgeSizes(S) == SortSeqOf(EdgeSizes(S))
MaxEdgeOrder(S) == IF S.edges # <<>> THEN MaxOf(EdgeSizes(S)) - 1 ELSE IF S.nodes # <<>> THEN 0 ELSE None
NumEdgesOrder(S, d) == IF d = None THEN Len(S.edges) ELSE Cardinality({e \in EdgeSet(S) : SizeOf(S, e) = d + 1})
\* order shared by all edges, singleton edges disregarded; -1: not uniform
IsUniform(S) == LET sz == EdgeSizes(S) \ {1} IN IF Cardinality(sz) = 1 THEN MaxOf(sz) - 1 ELSE -1
DegreeCounts(S) == LET mx == MaxOf({Degree(S, n) : n \in NodeSet(S)})
                   IN [k \in 1..(mx + 1) |-> Cardinality({n \in NodeSet(S) : Degree(S, n) = k - 1})]
\* first position holding the largest / smallest value (python max / min over a dict)
ArgBest(ids, vals, better(_, _)) ==
  ids[CHOOSE k \in DOMAIN ids : (\A m \in DOMAIN ids : ~better(vals[m], vals[k])) /\
                                (\A m \in 1..(k - 1) : better(vals[k], vals[m]))]
\* stable sort of the ids by value
RECURSIVE StableSort(_, _)
StableSort(ids, vals) ==
  IF ids = <<>> THEN <<>>
  ELSE LET k == CHOOSE k \in DOMAIN ids : \A m \in DOMAIN ids : vals[k] < vals[m] \/ (vals[k] = vals[m] /\ k <= m)
           rest == [q \in 1..(Len(ids) - 1) |-> IF q < k THEN q ELSE q + 1]
       IN <<ids[k]>> \o StableSort([q \in DOMAIN rest |-> ids[rest[q]]], [q \in DOMAIN rest |-> vals[rest[q]]])

(* ---- connectivity ---------------------------------------------------------- *)
IsConnected(S) == Cardinality(Components(S)) = 1
RECURSIVE Dist(_, _, _, _)
\* breadth-first distance from the frontier F (distance d) given the visited set V
Dist(S, F, V, d) ==
  IF F = {} THEN [n \in {} |-> 0]
  ELSE LET nxt == (UNION {NodeNbrs(S, n, 1) : n \in F}) \ V
       IN [n \in F |-> d] @@ Dist(S, nxt, V \cup nxt, d + 1)
\* distances from n to every node of its component
DistFrom(S, n) == Dist(S, {n}, {n}, 0)
=============================================================================
