------------------------------- MODULE MC_Nets -------------------------------
(***************************************************************************)
(* Design-level model of copy / pickle / own-class construction followed by *)
(* arbitrary edits on either side, with two or three slots.  Slot contents   *)
(* are HG states edited with the HG operators (values, not references: that  *)
(* the real objects behave like values is exactly what the implementation    *)
(* has to refine).  TLC checks Frame / CopyEqual / UidFresh on every         *)
(* transition and prints every behaviour of length Depth; the harness        *)
(* replays each behaviour on real objects of the three classes and logs the  *)
(* projections of ALL live slots after every step for TraceNets.             *)
(***************************************************************************)
EXTENDS HG, Json
CONSTANTS NSlots, Depth
VARIABLES net, hist
vars == <<net, hist>>
Slots == 1..NSlots
NullS == [null |-> TRUE]
Live(k) == "null" \notin DOMAIN net[k]

\* the seed network: a list-valued (nested mutable) edge attribute, a string-like id,
\* an isolated node, an empty edge, a network attribute
Seed ==
  LET s1 == AddNode(EmptyHG, 2, Put(NoAttr, 1, <<0, 1>>)).st
      s2 == AddEdge(s1, <<0, 1>>, None, Put(NoAttr, 2, <<1, 5>>), <<0, 1>>).st
      s3 == AddEdge(s2, <<1>>, 100, NoAttr, <<>>).st
      s4 == AddEdge(s3, <<>>, None, NoAttr, <<>>).st
  IN [s4 EXCEPT !.gattr = Put(NoAttr, 2, <<1, 7>>)]

\* abstract edits (the harness maps them to the calls of each class)
Edit(S, name) ==
  CASE name = "add_auto" -> AddEdge(S, <<0, 3>>, None, NoAttr, <<0, 3>>).st
    [] name = "add_explicit" -> AddEdge(S, <<1, 2>>, 7, NoAttr, <<1, 2>>).st
    [] name = "add_node" -> AddNode(S, 4, Put(NoAttr, 1, <<0, 2>>)).st
    [] name = "remove_first_edge" -> IF S.edges = <<>> THEN S ELSE RemoveEdge(S, S.edges[1]).st
    [] name = "remove_node" -> IF 1 \in NodeSet(S) THEN RemoveNode(S, 1, FALSE, TRUE).st ELSE S
    [] name = "set_attr" -> SetNodeAttributes(S, 1, 1, <<0, 9>>, <<>>, <<>>).st
    \* in-place append to every list-valued edge attribute, reached through the API
    [] name = "nested_append" ->
         [S EXCEPT !.eattr = [e \in DOMAIN @ |-> [k \in DOMAIN @[e] |->
              IF @[e][k][1] = 1 THEN Append(@[e][k], 9) ELSE @[e][k]]],
                   !.gattr = [k \in DOMAIN @ |-> IF @[k][1] = 1 THEN Append(@[k], 9) ELSE @[k]]]
Edits == {"add_auto", "add_explicit", "add_node", "remove_first_edge", "remove_node", "set_attr", "nested_append"}

Act(kind, a, b, name) == [kind |-> kind, a |-> a, b |-> b, name |-> name]

Init == net = [k \in Slots |-> IF k = 1 THEN Seed ELSE NullS] /\ hist = <<>>
Mutate(k, name) == Live(k) /\ net' = [net EXCEPT ![k] = Edit(net[k], name)]
                   /\ hist' = Append(hist, Act("edit", k, k, name))
Derive(kind, a, b) == a # b /\ Live(a)
                      /\ net' = [net EXCEPT ![b] = [net[a] EXCEPT !.frozen = FALSE]]
                      /\ hist' = Append(hist, Act(kind, a, b, ""))
Next == /\ Len(hist) < Depth
        /\ \/ \E k \in Slots, name \in Edits : Mutate(k, name)
           \/ \E a, b \in Slots, kind \in {"copy", "pickle", "ctor"} : Derive(kind, a, b)
Spec == Init /\ [][Next]_vars

InvUidFresh == \A k \in Slots : Live(k) => UidFresh(net[k]) /\ Integrity(net[k])
PropFrame == [][\A k \in Slots : k # hist'[Len(hist')].b => net'[k] = net[k]]_vars
PropCopyEqual == [][hist'[Len(hist')].kind \in {"copy", "pickle", "ctor"} =>
                      net'[hist'[Len(hist')].b] = [net[hist'[Len(hist')].a] EXCEPT !.frozen = FALSE]]_vars
EmitHist == Len(hist) = Depth => PrintT(ToJson([kind |-> "behaviour", acts |-> hist]))
=============================================================================
