------------------------------- MODULE MC_DHG ------------------------------
(* Exhaustive model of one DiHypergraph object; see MC_HG for the scheme.   *)
EXTENDS DHG, Json

CONSTANTS NN, EdgeIds, MaxUid, MaxEdges, MaxAttr, MaxLevel, Rich, WithFreeze, Emit
SX == INSTANCE SequencesExt
VARIABLES st, last
vars == <<st, last>>

Nodes == 0..(NN - 1)
A0 == <<>>
A1 == << <<1, <<0, 1>> >> >>
A2 == << <<1, <<0, 2>> >>, <<2, <<1, 5>> >> >>
Sides == {SortSeqOf(X) : X \in SUBSET Nodes}
O(name) == [OpDefaults EXCEPT !.name = name]
Item(t, h, id, a) == [m |-> t, h |-> h, id |-> id, a |-> a, w |-> <<2>>]
NItem(n, a) == [m |-> <<>>, h |-> <<>>, id |-> n, a |-> a, w |-> <<2>>]
All == SortSeqOf(Nodes)

ItemsFor(fmt) ==
  CASE fmt = 1 -> {Item(<<0>>, All, None, A0), Item(<<>>, <<>>, None, A0), Item(<<1>>, <<0, None>>, None, A0)}
    [] fmt = 2 -> {Item(t, <<1>>, id, A0) : t \in {<<0>>, All}, id \in {0, 1, 100}}
    [] fmt = 3 -> {Item(<<0>>, <<0>>, None, A1), Item(All, <<>>, None, A1)}
    [] fmt = 4 -> {Item(t, <<0>>, id, A1) : t \in {<<>>, All}, id \in {1, 0}}
    [] fmt = 5 -> {Item(t, <<1>>, id, A0) : t \in {<<1>>, <<0>>}, id \in {0, 2}}
Bulk(fmt) == {<<x>> : x \in ItemsFor(fmt)} \cup
             (IF Rich THEN {<<x, y>> : x \in ItemsFor(fmt), y \in ItemsFor(fmt)}
              ELSE {<<x, y>> : x \in ItemsFor(fmt), y \in {CHOOSE z \in ItemsFor(fmt) : TRUE}})
BulkOK(fmt, its) == fmt # 5 \/ Len(its) < 2 \/ its[1].id # its[2].id

Alphabet ==
     {[O("add_node") EXCEPT !.n = n, !.a = a] : n \in Nodes \cup {None}, a \in {A0, A1}}
  \cup {[O("add_nodes_from") EXCEPT !.fmt = 1, !.items = its, !.a = A0] :
          its \in {<<NItem(0, A0), NItem(1, A0)>>, <<NItem(1, A0), NItem(None, A0)>>}}
  \cup {[O("add_nodes_from") EXCEPT !.fmt = 2, !.items = <<NItem(1, A2), NItem(0, A0)>>, !.a = A1]}
  \cup {[O("remove_node") EXCEPT !.n = n, !.b1 = s, !.b2 = r] : n \in Nodes, s \in BOOLEAN, r \in BOOLEAN}
  \cup {[O("remove_nodes_from") EXCEPT !.ns = <<0, 1, 1>>, !.b1 = s, !.b2 = TRUE] : s \in BOOLEAN}
  \cup {[O("set_node_attributes") EXCEPT !.fmt = 2, !.k = 1, !.kv = << <<0, <<0, 4>> >>, <<1, <<2>> >> >>]}
  \cup {[O("set_edge_attributes") EXCEPT !.fmt = 3, !.kd = << <<1, A2>>, <<2, A1>> >>]}
  \cup {[O("set_edge_attributes") EXCEPT !.fmt = 4]}
  \cup {[O("add_edge") EXCEPT !.m = t, !.h = h, !.id = id, !.a = A0] :
          t \in Sides, h \in Sides, id \in EdgeIds \cup {None}}
  \cup {[O("add_edge") EXCEPT !.m = <<0>>, !.h = h, !.id = id, !.a = A1] : h \in {<<1>>, <<0, None>>}, id \in {None, 0}}
  \cup {[O("add_edge") EXCEPT !.m = <<0>>, !.h = <<1>>, !.b3 = TRUE]}
  \cup UNION {{[O("add_edges_from") EXCEPT !.fmt = f, !.items = its, !.a = a] :
          its \in {x \in Bulk(f) : BulkOK(f, x)}, a \in IF Rich THEN {A0, A2} ELSE {A0}} : f \in 1..5}
  \cup {[O("add_edges_from") EXCEPT !.fmt = 4, !.items = <<Item(<<0>>, <<1>>, 1, A1)>>, !.a = A2],
        [O("add_edges_from") EXCEPT !.fmt = 1]}
  \cup {[O("remove_edge") EXCEPT !.e = e] : e \in EdgeIds}
  \cup {[O("remove_edges_from") EXCEPT !.ns = es] : es \in {<<0, 1>>, <<1, 2>>, <<100>>, <<>>}}
  \cup {[O("add_node_to_edge") EXCEPT !.e = e, !.n = n, !.s1 = d] :
          e \in EdgeIds \cup {None}, n \in Nodes \cup {None}, d \in {"in", "out"}}
  \cup {[O("add_node_to_edge") EXCEPT !.e = 0, !.n = 0, !.s1 = "sideways"]}
  \cup {[O("remove_node_from_edge") EXCEPT !.e = e, !.n = n, !.s1 = d, !.b1 = r] :
          e \in EdgeIds, n \in Nodes, d \in {"in", "out"}, r \in BOOLEAN}
  \cup {[O("remove_node_from_edge") EXCEPT !.e = 0, !.n = 0, !.s1 = "sideways"]}
  \cup {[O("clear") EXCEPT !.b1 = b] : b \in BOOLEAN}
  \cup {[O("cleanup") EXCEPT !.b1 = b1, !.b5 = b5] : b1 \in BOOLEAN, b5 \in BOOLEAN}
  \cup {O("convert_labels_to_integers")}
  \cup (IF Rich THEN {[O("set_net_attr") EXCEPT !.k = 1, !.v = <<0, 1>>]} ELSE {})
  \cup (IF Rich \/ WithFreeze THEN {O("freeze")} ELSE {})

Ords(op) == IF op.name \in {"add_edge", "add_edges_from"} THEN Perms(Nodes) ELSE {SortSeqOf(Nodes)}

Init == st = EmptyDHG /\ last = [op |-> OpDefaults, res |-> "init"]
Next == \E op \in Alphabet : \E ord \in Ords(op) : \E o \in Outcomes(st, op, ord) :
           st' = o.st /\ last' = [op |-> op, res |-> o.res]
Spec == Init /\ [][Next]_vars
NextE == \E op \in Alphabet : \E ord \in Ords(op) : \E o \in Outcomes(st, op, ord) :
            st' = o.st /\ UNCHANGED last
SpecE == Init /\ [][NextE]_vars

AttrCount(S) == SumSet(LAMBDA n : Cardinality(DOMAIN S.nattr[n]), DOMAIN S.nattr)
                + SumSet(LAMBDA e : Cardinality(DOMAIN S.eattr[e]), DOMAIN S.eattr)
                + Cardinality(DOMAIN S.gattr)
Bounded == TLCGet("level") <= MaxLevel /\ st.uid <= MaxUid /\ AttrCount(st) <= MaxAttr /\ Len(st.edges) <= MaxEdges
View == st

InvDiIntegrity == DiIntegrity(st)
InvUidFresh == UidFresh(st)
PropAddsPreserve == [][last'.op.name \in (AddOps \ {"add_node_to_edge"}) => (AddsPreserve(st, st') /\ AddsPreserveMembers(st, st'))]_vars
PropAddNodeToEdgePreserve == [][last'.op.name = "add_node_to_edge" => AddsPreserve(st, st')]_vars
PropFrozen == [][st.frozen => (st'.frozen /\ Struct(st') = Struct(st))]_vars
PropErrNoChange == [][last'.res # "ok" /\ last'.op.name \notin {"add_nodes_from", "add_edges_from", "remove_edges_from", "add_node_to_edge"} => st' = st]_vars

EmitState == Emit => PrintT(ToJson([kind |-> "state", st |-> ToJ(st)]))
ASSUME Emit => PrintT(ToJson([kind |-> "alphabet", ops |-> SX!SetToSeq(Alphabet)]))
=============================================================================
