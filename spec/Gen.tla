---------------------------------- MODULE Gen ---------------------------------
(***************************************************************************)
(* C16: a generator is a nondeterministic action whose admissible outputs   *)
(* are described by a predicate GenPost(p, S) over the parameters and the    *)
(* generated network S.  Deterministic generators are specified exactly.     *)
(* Parameter record p (all fields always present):                           *)
(*   gen, n, m, sizes, zero, one, norepeat, nodes, maxdeg, blocks, pzero,    *)
(*   pone, links, k, l, d, c, a, b, singles                                  *)
(***************************************************************************)
EXTENDS SC

RECURSIVE Binom(_, _)
Binom(n, k) == IF k = 0 THEN 1 ELSE IF n = 0 THEN 0 ELSE Binom(n - 1, k - 1) + Binom(n - 1, k)
V(n) == 0..(n - 1)
MemberBag(S) == [k \in DOMAIN S.edges |-> S.e2n[S.edges[k]]]
MemberSets(S) == {S.e2n[e] : e \in EdgeSet(S)}
NoRepeats(S) == \A e, f \in EdgeSet(S) : S.e2n[e] = S.e2n[f] => e = f
CountSize(S, k) == Cardinality({e \in EdgeSet(S) : Cardinality(S.e2n[e]) = k})
KSubsets(X, k) == {Y \in SUBSET X : Cardinality(Y) = k}
SeqSets(q) == {Range(q[k]) : k \in DOMAIN q}
\* the generated edges are exactly the given node sets, each once
ExactlyOnce(S, sets) == NoRepeats(S) /\ MemberSets(S) = sets /\ Len(S.edges) = Cardinality(sets)
\* exactly the given sequence of node sets as a bag (repetitions count)
SameBag(S, q) == Len(q) = Len(S.edges) /\
  \A X \in SeqSets(q) \cup MemberSets(S) :
     Cardinality({k \in DOMAIN q : Range(q[k]) = X}) = Cardinality({e \in EdgeSet(S) : S.e2n[e] = X})

Common(p, S) == Integrity(S) /\ UidFresh(S)

\* random models over node set V(n): allowed sizes, probability 0 => none, probability 1 => all
RandomPost(p, S) ==
  /\ NodeSet(S) = V(p.n)
  /\ \A e \in EdgeSet(S) : Cardinality(S.e2n[e]) \in Range(p.sizes)
  /\ (p.norepeat => NoRepeats(S))
  /\ \A k \in Range(p.zero) : CountSize(S, k) = 0
  /\ \A k \in Range(p.one) : CountSize(S, k) = Binom(p.n, k) /\ KSubsets(V(p.n), k) \subseteq MemberSets(S)

\* stochastic block models: an edge may only lie on a block pattern of positive probability;
\* patterns of probability one are complete
BlockOf(p, x) == CHOOSE b \in DOMAIN p.blocks : x \in Range(p.blocks[b])
Pattern(p, X) == SortSeqOf({BlockOf(p, x) * 100 + x : x \in X})   \* positions by block then node
PatternBlocks(p, X) == [k \in DOMAIN Pattern(p, X) |-> Pattern(p, X)[k] \div 100]
BlockPost(p, S) ==
  /\ NodeSet(S) = V(p.n)
  /\ \A e \in EdgeSet(S) : Cardinality(S.e2n[e]) = p.m /\ PatternBlocks(p, S.e2n[e]) \notin Range(p.pzero)
  /\ \A X \in KSubsets(V(p.n), p.m) : PatternBlocks(p, X) \in Range(p.pone) => X \in MemberSets(S)

\* configuration-type models: prescribed node set, uniform size, degrees never exceed the prescription
ConfigPost(p, S) ==
  /\ NodeSet(S) = Range(p.nodes)
  /\ \A e \in EdgeSet(S) : Cardinality(S.e2n[e]) = p.m
  \* p.n: how many extra connections the documentation allows (degree sum not divisible by m)
  /\ \A k \in DOMAIN p.maxdeg : Degree(S, p.maxdeg[k][1]) <= p.maxdeg[k][2] + (IF p.n > 0 THEN 1 ELSE 0)
  /\ Cardinality({k \in DOMAIN p.maxdeg : Degree(S, p.maxdeg[k][1]) > p.maxdeg[k][2]}) <= p.n
BipartitePost(p, S) ==   \* chung_lu / dcsbm: ids and members inside the prescribed sets
  /\ NodeSet(S) = Range(p.nodes) /\ EdgeSet(S) \subseteq Range(p.sizes)
  /\ \A k \in DOMAIN p.maxdeg : TRUE

\* randomizing generators return a new hypergraph derived from a source (p.src: member lists in edge order)
BagCount(Q, X) == Cardinality({k \in DOMAIN Q : Range(Q[k]) = X})
EqualBags(Q, R) == Len(Q) = Len(R) /\ \A k \in DOMAIN Q : BagCount(Q, Range(Q[k])) = BagCount(R, Range(Q[k]))
OutMembers(S) == [k \in DOMAIN S.edges |-> SortSeqOf(S.e2n[S.edges[k]])]
\* shuffle_hyperedges(S, order=p.d, prob): edges of other sizes untouched, as many edges of size d+1 as
\* before, each a set of d+1 existing nodes; probability 0 (p.zero non-empty) changes nothing
ShufflePost(p, S) ==
  LET other(Q) == SelectSeq(Q, LAMBDA m : Len(m) # p.d + 1)
      O == OutMembers(S) IN
  /\ NodeSet(S) = Range(p.nodes)
  /\ EqualBags(other(p.src), other(O))
  /\ Len(O) = Len(p.src)
  /\ (p.zero # <<>> => EqualBags(p.src, O))
\* node_swap(H, a, b, order=p.d or -1 for all): a and b exchanged in every edge of the selected order
NodeSwapPost(p, S) ==
  LET sw(x) == IF x = p.a THEN p.b ELSE IF x = p.b THEN p.a ELSE x
      sel(m) == p.d = -1 \/ Len(m) = p.d + 1
      exp == [k \in DOMAIN p.src |-> IF sel(p.src[k]) THEN SortSeqOf({sw(x) : x \in Range(p.src[k])}) ELSE p.src[k]]
  IN NodeSet(S) = Range(p.nodes) /\ EqualBags(exp, OutMembers(S))

\* ring_lattice(n, d, k, l): for every node v and every start in v+1 .. v+k/2 the edge
\* {v} U {(start + l + i) mod n : i < d-1}
RingEdges(p) ==
  [q \in 1..(p.n * (p.k \div 2)) |->
     LET v == (q - 1) \div (p.k \div 2)  st == v + 1 + ((q - 1) % (p.k \div 2))
     IN <<v>> \o [j \in 1..(p.d - 1) |-> (st + p.l + (j - 1)) % p.n]]
RingPost(p, S) == NodeSet(S) = V(p.n) /\ SameBag(S, RingEdges(p))

StarCliquePost(p, S) ==
  LET star == V(p.a)  clique == p.a..(p.a + p.b - 1)
      legs == {{0, j} : j \in 1..(p.a - 1)} \cup {{0, p.a}}
      cl == UNION {KSubsets(clique, s) : s \in 2..(p.d + 1)}
  IN NodeSet(S) = V(p.a + p.b) /\ ExactlyOnce(S, legs \cup cl)

\* sunflower(l, c, m): l edges of size m, any two of them meet exactly in the core V(c)
SunflowerPost(p, S) ==
  /\ NodeSet(S) = V(p.c + p.l * (p.m - p.c)) /\ Len(S.edges) = p.l
  /\ \A e \in EdgeSet(S) : Cardinality(S.e2n[e]) = p.m /\ V(p.c) \subseteq S.e2n[e]
  /\ \A e, f \in EdgeSet(S) : e # f => S.e2n[e] \cap S.e2n[f] = V(p.c)

\* complete_hypergraph: every admissible node set exactly once
CompletePost(p, S) ==
  NodeSet(S) = V(p.n) /\ ExactlyOnce(S, UNION {KSubsets(V(p.n), s) : s \in Range(p.sizes)})

\* simplicial complexes: downward closed; flag complexes are clique complexes of the logged graph
Adjacent(p, x, y) == \E k \in DOMAIN p.links : {p.links[k][1], p.links[k][2]} = {x, y}
Cliques(p, lo, hi) == {X \in SUBSET Range(p.nodes) : Cardinality(X) >= lo /\ Cardinality(X) <= hi
                                                     /\ \A x \in X : \A y \in X \ {x} : Adjacent(p, x, y)}
SCPost(p, S) ==
  /\ NodeSet(S) = Range(p.nodes) /\ SCInv(S)
  /\ \A e \in EdgeSet(S) : Cardinality(S.e2n[e]) \in Range(p.sizes)
  /\ \A k \in Range(p.zero) : CountSize(S, k) = 0
  /\ \A k \in Range(p.one) : KSubsets(Range(p.nodes), k) \subseteq MemberSets(S)
FlagPost(p, S) ==   \* p.d = max_order; exact = no probabilities given
  /\ NodeSet(S) = Range(p.nodes) /\ SCInv(S)
  /\ Cliques(p, 2, 2) \subseteq MemberSets(S)
  /\ MemberSets(S) \subseteq Cliques(p, 2, p.d + 1)
  /\ (p.norepeat => MemberSets(S) = Cliques(p, 2, p.d + 1))
  \* promotion probability 0 => no clique of that size is filled; 1 => every one of them (when the
  \* larger sizes are not promoted either, nothing else can add or hide them)
  /\ \A k \in Range(p.zero) : CountSize(S, k) = 0
  /\ \A k \in Range(p.one) : Cliques(p, k, k) \subseteq MemberSets(S)
\* a random flag complex is the flag complex of its own 1-skeleton
SelfFlagPost(p, S) ==
  LET pairs == {X \in MemberSets(S) : Cardinality(X) = 2}
      adj(x, y) == {x, y} \in pairs
      cliques == {X \in SUBSET NodeSet(S) : Cardinality(X) >= 2 /\ Cardinality(X) <= p.d + 1
                                             /\ \A x \in X : \A y \in X \ {x} : adj(x, y)}
  IN NodeSet(S) = V(p.n) /\ SCInv(S) /\ MemberSets(S) = cliques

GenPost(p, S) ==
  Common(p, S) /\
  CASE p.gen = "random" -> RandomPost(p, S)
    [] p.gen = "block" -> BlockPost(p, S)
    [] p.gen = "config" -> ConfigPost(p, S)
    [] p.gen = "bipartite" -> BipartitePost(p, S)
    [] p.gen = "shuffle" -> ShufflePost(p, S)
    [] p.gen = "node_swap" -> NodeSwapPost(p, S)
    [] p.gen = "trivial" -> NodeSet(S) = V(p.n) /\ S.edges = <<>> /\ Len(S.nodes) = p.n
    [] p.gen = "ring" -> RingPost(p, S)
    [] p.gen = "star_clique" -> StarCliquePost(p, S)
    [] p.gen = "sunflower" -> SunflowerPost(p, S)
    [] p.gen = "complete" -> CompletePost(p, S)
    [] p.gen = "sc" -> SCPost(p, S)
    [] p.gen = "flag" -> FlagPost(p, S)
    [] p.gen = "selfflag" -> SelfFlagPost(p, S)

\* index decodings used for skip sampling: the table for all indices must be a bijection onto
\* the m-subsets (comb), the m-tuples (prod) or the block products (partition), in index order
CombTable(n, m, tbl) ==
  /\ Len(tbl) = Binom(n, m)
  /\ \A k \in DOMAIN tbl : Len(tbl[k]) = m /\ Range(tbl[k]) \subseteq V(n)
        /\ \A a \in 1..(m - 1) : tbl[k][a] < tbl[k][a + 1]
  /\ \A a, b \in DOMAIN tbl : a # b => tbl[a] # tbl[b]
ProdTable(n, m, tbl) ==
  /\ Len(tbl) = n ^ m
  /\ \A k \in DOMAIN tbl : Len(tbl[k]) = m /\ Range(tbl[k]) \subseteq V(n)
  /\ \A a, b \in DOMAIN tbl : a # b => tbl[a] # tbl[b]
RECURSIVE ProdSeq(_)
ProdSeq(s) == IF s = <<>> THEN 1 ELSE Head(s) * ProdSeq(Tail(s))
PartTable(sizes, tbl) ==
  /\ Len(tbl) = ProdSeq(sizes)
  /\ \A k \in DOMAIN tbl : Len(tbl[k]) = Len(sizes) /\ \A a \in DOMAIN sizes : tbl[k][a] \in 0..(sizes[a] - 1)
  /\ \A a, b \in DOMAIN tbl : a # b => tbl[a] # tbl[b]
=============================================================================
