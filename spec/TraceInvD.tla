------------------------------ MODULE TraceInvD ------------------------------
(* State invariants on states recorded while the REPOSITORY'S OWN TEST-SUITE runs *)
(* (pytest plugin harness/pytest_trace.py): after every outermost mutating call   *)
(* on a Hypergraph / SimplicialComplex the projected state must satisfy           *)
(* Integrity, UidFresh and, for simplicial complexes, Closed / NoDup / NoEmpty.    *)
(* Record: [rid, cls, call, test, post, anom].                                     *)
EXTENDS DHG, Json, IOUtils
Recs == ndJsonDeserialize(IOEnv.TRACE_FILE)
VARIABLE i
Verdict(r) ==
  IF r.anom # <<>> THEN <<"C02:anomaly." \o r.anom[1]>> ELSE
  LET S == FromJ(r.post) IN
  (IF DiIntegrity(S) THEN <<>> ELSE <<"C02:DiIntegrity." \o FirstFailing(DiIntegrityClauses(S))>>)
  \o (IF UidFresh(S) THEN <<>> ELSE <<"C04:UidFresh">>)
Init == i = 0
Next == i < Len(Recs) /\ i' = i + 1
Spec == Init /\ [][Next]_i
Report == i = 0 \/ LET v == Verdict(Recs[i])
                   IN v = <<>> \/ PrintT(ToJson([rid |-> Recs[i].rid, v |-> v]))
Done == PrintT(ToJson([consumed |-> TLCGet("stats").diameter - 1, total |-> Len(Recs)]))
=============================================================================
