------------------------------- MODULE Matrices ------------------------------
(***************************************************************************)
(* Textbook definitions of the matrix representations (C12) and of the       *)
(* boundary operators (C13) of a network state S, as functions of node /      *)
(* edge labels.  All values are integers or exact rationals <<num, den>>.     *)
(***************************************************************************)
EXTENDS Derived

EdgesOfOrder(S, d) == IF d = None THEN S.edges ELSE SelectSeq(S.edges, LAMBDA e : SizeOf(S, e) = d + 1)
In(S, n, e) == IF n \in S.e2n[e] THEN 1 ELSE 0
Shared(S, d, i, j) == Cardinality({e \in Range(EdgesOfOrder(S, d)) : i \in S.e2n[e] /\ j \in S.e2n[e]})
\* adjacency: number of shared edges (weighted) / whether at least s are shared; zero diagonal
Adj(S, d, s, weighted, i, j) ==
  IF i = j THEN 0
  ELSE LET c == Shared(S, d, i, j) IN IF c >= s THEN (IF weighted THEN c ELSE 1) ELSE 0
DegOrd(S, d, n) == Cardinality({e \in Range(EdgesOfOrder(S, d)) : n \in S.e2n[e]})
Intersection(S, e, f) == Cardinality(S.e2n[e] \cap S.e2n[f])
\* order-d Laplacian  L = d K - A  (A weighted, restricted to order d)
Lap(S, d, i, j) == IF i = j THEN d * DegOrd(S, d, i) ELSE -Shared(S, d, i, j)
\* sum-of-squares certificate: L_d = sum over edges of order d and pairs a<b in the edge of
\* (e_a - e_b)(e_a - e_b)^T, an integer identity that certifies positive semidefiniteness
SOS(S, d, i, j) ==
  SumSet(LAMBDA e : SumSet(LAMBDA p : ((IF i = p[1] THEN 1 ELSE 0) - (IF i = p[2] THEN 1 ELSE 0))
                                       * ((IF j = p[1] THEN 1 ELSE 0) - (IF j = p[2] THEN 1 ELSE 0)),
                           {p \in S.e2n[e] \X S.e2n[e] : p[1] < p[2]}),
         Range(EdgesOfOrder(S, d)))
LapIsSOS(S, d) == \A i, j \in NodeSet(S) : Lap(S, d, i, j) = SOS(S, d, i, j)
LapRowSumsZero(S, d) == \A i \in NodeSet(S) : SumSet(LAMBDA j : Lap(S, d, i, j), NodeSet(S)) = 0
LapSymmetric(S, d) == \A i, j \in NodeSet(S) : Lap(S, d, i, j) = Lap(S, d, j, i)

\* multi-order Laplacian: sum_d w_d L_d / <K_d>, orders without edges contribute nothing
MeanDeg(S, d) == Rat(SumSet(LAMBDA n : DegOrd(S, d, n), NodeSet(S)), Cardinality(NodeSet(S)))
MultiLap(S, ds, ws, rescale, i, j) ==
  FoldL(LAMBDA acc, k :
          IF MeanDeg(S, ds[k])[1] = 0 THEN acc
          ELSE RAdd(acc, RDiv(Rat(ws[k] * Lap(S, ds[k], i, j), IF rescale THEN ds[k] ELSE 1), MeanDeg(S, ds[k]))),
        <<0, 1>>, [k \in DOMAIN ds |-> k])
\* normalised Laplacian core  S_ij = sum_e [i, j in e] / |e|   (unit weights)
\* the same with edge weights taken from the attribute "weight" (key 4), 1 when absent
WeightKey == 4
\* the "weight" attribute is logged in half units (fractional weights are ordinary), default 1
EdgeWeight2(S, e) == IF WeightKey \in DOMAIN S.eattr[e] THEN S.eattr[e][WeightKey][2] ELSE 2
NormCoreW(S, i, j) ==
  FoldL(LAMBDA acc, e : IF i \in S.e2n[e] /\ j \in S.e2n[e] THEN RAdd(acc, Rat(EdgeWeight2(S, e), 2 * SizeOf(S, e))) ELSE acc,
        <<0, 1>>, S.edges)
NormCore(S, i, j) ==
  FoldL(LAMBDA acc, e : IF i \in S.e2n[e] /\ j \in S.e2n[e] THEN RAdd(acc, Rat(1, SizeOf(S, e))) ELSE acc,
        <<0, 1>>, S.edges)
=============================================================================
