------------------------------- MODULE MC_SC -------------------------------
(* Exhaustive model of one SimplicialComplex object; see MC_HG for the scheme. *)
EXTENDS SC, Json

CONSTANTS NN, EdgeIds, MaxUid, MaxEdges, MaxAttr, MaxLevel, Rich, WithFreeze, Emit
SX == INSTANCE SequencesExt
VARIABLES st, last
vars == <<st, last>>

Nodes == 0..(NN - 1)
A0 == <<>>
A1 == << <<1, <<0, 1>> >> >>
A2 == << <<1, <<0, 2>> >>, <<2, <<1, 5>> >> >>
All == SortSeqOf(Nodes)
MemberSeqs == {SortSeqOf(X) : X \in SUBSET Nodes}
O(name) == [OpDefaults EXCEPT !.name = name]
Item(m, id, a) == [m |-> m, h |-> <<>>, id |-> id, a |-> a, w |-> <<0, 3>>]
NItem(n, a) == [m |-> <<>>, h |-> <<>>, id |-> n, a |-> a, w |-> <<2>>]
MaxOrders == IF Rich THEN {None, 0, 1} ELSE {None, 1}

ItemsFor(fmt) ==
  CASE fmt = 1 -> {Item(m, None, A0) : m \in {<<>>, <<0>>, <<0, 1>>, All}}
    [] fmt = 2 -> {Item(m, id, A0) : m \in {<<1, 2>>, All}, id \in {0, 100}}
    [] fmt = 3 -> {Item(m, None, A1) : m \in {<<0, 2>>, All}}
    [] fmt = 4 -> {Item(m, id, A1) : m \in {<<0, 1>>, All}, id \in {1, 0}}
    [] fmt = 5 -> {Item(m, id, A0) : m \in {<<1>>, All}, id \in {0, 2}}
Bulk(fmt) == {<<x>> : x \in ItemsFor(fmt)} \cup
             (IF Rich THEN {<<x, y>> : x \in ItemsFor(fmt), y \in ItemsFor(fmt)}
              ELSE {<<CHOOSE z \in ItemsFor(fmt) : TRUE, CHOOSE z \in ItemsFor(fmt) : z.m = All>>})
BulkOK(fmt, its) == fmt # 5 \/ Len(its) < 2 \/ its[1].id # its[2].id

Alphabet ==
     {[O("add_node") EXCEPT !.n = n, !.a = a] : n \in Nodes \cup {None}, a \in {A0, A1}}
  \cup {[O("add_nodes_from") EXCEPT !.fmt = 2, !.items = <<NItem(1, A2), NItem(0, A0)>>, !.a = A1]}
  \cup {[O("remove_node") EXCEPT !.n = n] : n \in Nodes}
  \cup {[O("remove_nodes_from") EXCEPT !.ns = <<0, 1, 1>>]}
  \cup {[O("set_edge_attributes") EXCEPT !.fmt = 3, !.kd = << <<1, A2>>, <<2, A1>> >>]}
  \cup {[O("add_simplex") EXCEPT !.m = m, !.id = id, !.a = A0] : m \in MemberSeqs, id \in EdgeIds \cup {None}}
  \cup {[O("add_simplex") EXCEPT !.m = m, !.id = id, !.a = A1] : m \in {<<0, None>>, All}, id \in {None, 0}}
  \cup {[O("add_simplex") EXCEPT !.b3 = TRUE]}
  \cup UNION {{[O("add_simplices_from") EXCEPT !.fmt = f, !.items = its, !.n2 = k, !.a = a] :
          its \in {x \in Bulk(f) : BulkOK(f, x)}, k \in MaxOrders, a \in IF Rich THEN {A0, A2} ELSE {A0}} : f \in 1..5}
  \cup {[O("add_simplices_from") EXCEPT !.fmt = 1, !.items = <<Item(<<0, None>>, None, A0), Item(All, None, A0)>>]}
  \cup {[O("add_simplices_from") EXCEPT !.fmt = 1],
        [O("add_simplices_from") EXCEPT !.fmt = 1, !.items = <<Item(All, None, A0)>>, !.n2 = 0]}
  \cup {[O("remove_simplex_id") EXCEPT !.e = e] : e \in EdgeIds \cup {2, 3}}
  \cup {[O("remove_simplex_ids_from") EXCEPT !.ns = es] : es \in {<<0, 1>>, <<1, 0>>, <<3, 100>>, <<>>}}
  \cup {O("close")}
  \cup {[O("cleanup") EXCEPT !.b1 = t[1], !.b4 = t[2], !.b5 = t[3]] : t \in BOOLEAN \X BOOLEAN \X BOOLEAN}
  \cup {[O("clear") EXCEPT !.b1 = TRUE]}
  \cup {O("convert_labels_to_integers"), O("largest_connected_hypergraph")}
  \cup {[O("add_node_to_edge") EXCEPT !.e = 0, !.n = 0]}
  \cup {[O("add_edge") EXCEPT !.m = m, !.id = 100] : m \in {<<0, 1>>, All}}
  \cup {[O("add_edges_from") EXCEPT !.fmt = 1, !.items = <<Item(All, None, A0)>>, !.n2 = 0]}
  \cup {[O("remove_edge") EXCEPT !.e = e] : e \in {0, 1}}
  \cup {[O("remove_edges_from") EXCEPT !.ns = <<1, 0>>]}
  \cup (IF Rich THEN {[O("set_net_attr") EXCEPT !.k = 1, !.v = <<0, 1>>]} ELSE {})
  \cup (IF Rich \/ WithFreeze THEN {O("freeze")} ELSE {})

Pairs == {X \in SUBSET Nodes : Cardinality(X) = 2}
Triples == {X \in SUBSET Nodes : Cardinality(X) = 3 /\ NN > 3}
\* face orders: every permutation of the 2-node faces, the larger faces in a fixed order
PairSeq == SX!SetToSeq(Pairs)
Fords == IF Rich THEN {p \o SX!SetToSeq(Triples) : p \in Perms(Pairs)}
         ELSE {PairSeq \o SX!SetToSeq(Triples), SX!Reverse(PairSeq) \o SX!SetToSeq(Triples)}
MultiFace(op) == op.name \in {"add_simplex", "add_simplices_from", "add_edge", "add_edges_from", "close"}
Ords(op) == IF MultiFace(op) /\ Rich THEN {SortSeqOf(Nodes), SX!Reverse(SortSeqOf(Nodes))} ELSE {SortSeqOf(Nodes)}
FordsOf(op) == IF MultiFace(op) THEN Fords ELSE {<<>>}

Step(op, o) == st' = o.st /\ last' = [op |-> op, res |-> o.res]
Init == st = EmptySC /\ last = [op |-> OpDefaults, res |-> "init"]
Next == \E op \in Alphabet : ~SCUnspecified(st, op) /\
          \E ord \in Ords(op) : \E ford \in FordsOf(op) : \E o \in SCOutcomes(st, op, ord, ford) : Step(op, o)
Spec == Init /\ [][Next]_vars
NextE == \E op \in Alphabet : ~SCUnspecified(st, op) /\
          \E ord \in Ords(op) : \E ford \in FordsOf(op) : \E o \in SCOutcomes(st, op, ord, ford) :
            st' = o.st /\ UNCHANGED last
SpecE == Init /\ [][NextE]_vars

AttrCount(S) == SumSet(LAMBDA n : Cardinality(DOMAIN S.nattr[n]), DOMAIN S.nattr)
                + SumSet(LAMBDA e : Cardinality(DOMAIN S.eattr[e]), DOMAIN S.eattr)
                + Cardinality(DOMAIN S.gattr)
Bounded == TLCGet("level") <= MaxLevel /\ st.uid <= MaxUid /\ AttrCount(st) <= MaxAttr /\ Len(st.edges) <= MaxEdges
View == st

InvIntegrity == Integrity(st)
InvUidFresh == UidFresh(st)
InvClosed == Closed(st)
InvNoDup == NoDupSimplex(st)
InvNoEmpty == NoEmptySimplex(st)
PropAddsPreserve == [][last'.op.name \in SCAddOps => (AddsPreserve(st, st') /\ AddsPreserveMembers(st, st'))]_vars
PropRemoveExact == [][last'.op.name \in {"remove_simplex_id", "remove_edge"} /\ last'.res = "ok"
                        => RemoveExact(st, last'.op.e, st')]_vars
PropMaxOrder == [][last'.op.name = "add_simplices_from" => MaxOrderRespected(st, last'.op.n2, st')]_vars
PropFrozen == [][st.frozen => (st'.frozen /\ Struct(st') = Struct(st))]_vars

EmitState == Emit => PrintT(ToJson([kind |-> "state", st |-> ToJ(st)]))
ASSUME Emit => PrintT(ToJson([kind |-> "alphabet", ops |-> SX!SetToSeq(Alphabet)]))
=============================================================================
