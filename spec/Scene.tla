--------------------------------- MODULE Scene ---------------------------------
(***************************************************************************)
(* C20: the abstract drawing scene expected from a network and max_order,    *)
(* the layout domain predicate and the barycenter predicate.  The harness     *)
(* draws with injective integer node positions in convex position, so every   *)
(* marker offset, line end and polygon vertex maps back to exactly one node.  *)
(***************************************************************************)
EXTENDS SC

Bag(q, X) == Cardinality({k \in DOMAIN q : Range(q[k]) = X})
SameBagOfSets(q, sets, mult(_)) ==
  /\ \A k \in DOMAIN q : Range(q[k]) \in sets
  /\ \A X \in sets : Bag(q, X) = mult(X)
MaxOrd(S, mo) == IF mo = None THEN MaxOf({Cardinality(S.e2n[e]) : e \in EdgeSet(S)} \cup {1}) - 1 ELSE mo

\* hypergraph: one marker per node in node order, one line per 2-node edge, one polygon per
\* edge with 3 .. max_order+1 nodes (multi-edges are drawn once each)
HyperScene(S, mo, markers, lines, polys) ==
  LET two == {S.e2n[e] : e \in {f \in EdgeSet(S) : Cardinality(S.e2n[f]) = 2}}
      big == {S.e2n[e] : e \in {f \in EdgeSet(S) : Cardinality(S.e2n[f]) >= 3 /\ Cardinality(S.e2n[f]) <= MaxOrd(S, mo) + 1}}
      mult(X) == Cardinality({e \in EdgeSet(S) : S.e2n[e] = X})
  IN /\ markers = S.nodes
     /\ SameBagOfSets(lines, two, mult) /\ \A k \in DOMAIN lines : Len(lines[k]) = 2
     /\ SameBagOfSets(polys, big, mult) /\ \A k \in DOMAIN polys : Len(polys[k]) = Cardinality(Range(polys[k]))

\* simplicial complex: polygons are the maximal simplices with >= 3 nodes (up to max_order),
\* lines are the 2-node simplices, each once
SimplicialScene(S, mo, lines, polys) ==
  LET kept == IF mo = None THEN EdgeSet(S) ELSE {e \in EdgeSet(S) : Cardinality(S.e2n[e]) <= mo + 1}
      sets == {S.e2n[e] : e \in kept}
      maxi == {X \in sets : \A Y \in sets : X \subseteq Y => X = Y}
      two == {X \in sets : Cardinality(X) = 2}
      one(X) == 1
  IN /\ SameBagOfSets(polys, {X \in maxi : Cardinality(X) >= 3}, one)
     /\ SameBagOfSets(lines, two, one)

\* layouts: exactly one finite 2-d position per node (per edge for the second dict of the
\* bipartite layout) and for nothing else
LayoutOK(S, keys, ok) == Len(keys) = Len(S.nodes) /\ Range(keys) = NodeSet(S) /\ \A k \in DOMAIN ok : ok[k]
EdgeLayoutOK(S, keys, ok) == Len(keys) = Len(S.edges) /\ Range(keys) = EdgeSet(S) /\ \A k \in DOMAIN ok : ok[k]

\* barycenters with integer node positions: |e| * pos_e = sum of the members' positions
BarycentersOK(S, npos, epos) ==
  LET X(n) == npos[CHOOSE k \in DOMAIN npos : npos[k][1] = n][2]
      Y(n) == npos[CHOOSE k \in DOMAIN npos : npos[k][1] = n][3]
  IN /\ {epos[k][1] : k \in DOMAIN epos} = {e \in EdgeSet(S) : S.e2n[e] # {}}
     /\ \A k \in DOMAIN epos : LET e == epos[k][1] IN
           epos[k][4] /\ epos[k][2] = SumSet(X, S.e2n[e]) /\ epos[k][3] = SumSet(Y, S.e2n[e])
\* Bipartite drawing (growth X02).  nodes / ids: sequences; mem[k]: members of edge ids[k]; mo: None or
\* the largest order whose incidences are drawn.  Node markers in node order; one marker per edge that
\* has members (an edge without members may or may not get one); one line per (node, edge) incidence.
BipOrd(memk) == Cardinality(Range(memk)) - 1
BipMax(mem, mo) == IF mo = None THEN MaxOf({BipOrd(mem[k]) : k \in DOMAIN mem} \cup {0}) ELSE mo
BipMarkersOK(nodes, ids, members(_), markers, emarkers) ==
  /\ markers = nodes
  /\ NoDup(emarkers) /\ Range(emarkers) \subseteq Range(ids)
  /\ {ids[k] : k \in {m \in DOMAIN ids : members(m) # {}}} \subseteq Range(emarkers)
BipScene(nodes, ids, mem, mo, markers, emarkers, lines) ==
  LET drawn == {k \in DOMAIN ids : BipOrd(mem[k]) <= BipMax(mem, mo)}
      inc == UNION {{<<n, ids[k]>> : n \in Range(mem[k])} : k \in drawn}
  IN /\ BipMarkersOK(nodes, ids, LAMBDA k : Range(mem[k]), markers, emarkers)
     /\ NoDup(lines) /\ Range(lines) = inc
\* directed: order of an edge = |tail \cup head| - 1; arrow <<0, n, e>> from tail member n to the marker
\* of e, arrow <<1, n, e>> from the marker of e to head member n
DiBipScene(nodes, ids, tails, heads, mo, markers, emarkers, arrows) ==
  LET all(k) == Range(tails[k]) \cup Range(heads[k])
      ord(k) == Cardinality(all(k)) - 1
      mx == IF mo = None THEN MaxOf({ord(k) : k \in DOMAIN ids} \cup {0}) ELSE mo
      drawn == {k \in DOMAIN ids : ord(k) <= mx}
      exp == UNION {{<<0, n, ids[k]>> : n \in Range(tails[k])} \cup {<<1, n, ids[k]>> : n \in Range(heads[k])} : k \in drawn}
  IN /\ BipMarkersOK(nodes, ids, all, markers, emarkers)
     /\ NoDup(arrows) /\ Range(arrows) = exp
=============================================================================
