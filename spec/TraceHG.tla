------------------------------ MODULE TraceHG ------------------------------
(***************************************************************************)
(* Trace validation for xgi.Hypergraph (C->S and the answer leg of S->C).    *)
(* Every record is one public call executed on the real object:              *)
(*   [rid, pre, preanom, op, res, warn, post, postanom]                      *)
(* with pre/post the full projected state (J form).  The call is accepted    *)
(* iff it is one of the outcomes HG!Outcomes admits from `pre` (the order    *)
(* choice is read off the logged post-state) and the post-state satisfies    *)
(* every state invariant and the action properties of the call.  The verdict *)
(* is total: a rejected record names every failing clause, prefixed by the   *)
(* property that owns it.                                                    *)
(***************************************************************************)
EXTENDS HG, Json, IOUtils

Recs == ndJsonDeserialize(IOEnv.TRACE_FILE)

VARIABLE i

\* first differing field between an admitted outcome and the logged step
Mismatch(o, r, post) ==
  CASE o.res # r.res -> "result"
    [] o.st.nodes # post.nodes -> "nodes"
    [] o.st.edges # post.edges -> "edges"
    [] o.st.e2n # post.e2n -> "e2n"
    [] o.st.n2e # post.n2e -> "n2e"
    [] o.st.nattr # post.nattr -> "nattr"
    [] o.st.eattr # post.eattr -> "eattr"
    [] o.st.gattr # post.gattr -> "gattr"
    [] o.st.frozen # post.frozen -> "frozen"
    [] post.uid < o.st.uid -> "uid"
    [] o.warn > 0 /\ r.warn = 0 -> "warning"
    [] OTHER -> "ok"

StateClauses(post) ==
  (IF Integrity(post) THEN <<>> ELSE <<"C01:Integrity." \o FirstFailing(IntegrityClauses(post))>>)
  \o (IF UidFresh(post) THEN <<>> ELSE <<"C04:UidFresh">>)

ActionClauses(pre, r, post) ==
  (IF r.op.name \in AddOps /\ DOMAIN post.eattr = EdgeSet(post) /\ DOMAIN post.e2n = EdgeSet(post)
        /\ ~(AddsPreserve(pre, post) /\ (r.op.name = "add_node_to_edge" \/ AddsPreserveMembers(pre, post)))
     THEN <<"C04:AddsPreserve">> ELSE <<>>)
  \o (IF r.op.name \in {"double_edge_swap", "random_edge_shuffle"} /\ Integrity(post)
         /\ ~SwapPreserves(pre, post)
     THEN <<"C05:SwapPreserves">> ELSE <<>>)
  \o (IF pre.frozen /\ (Struct(post) # Struct(pre) \/ ~post.frozen) THEN <<"C18:FrozenImmutable">> ELSE <<>>)
  \* a call that would change the structure of an unfrozen twin must be rejected
  \o (IF pre.frozen /\ r.op.name \in StructuralOps /\ r.res # "liberr"
         /\ ~(\E o \in Unfrozen([pre EXCEPT !.frozen = FALSE], r.op, post.nodes) : o.res = r.res /\ Struct(o.st) = Struct(pre))
       THEN <<"C18:NotRejected">> ELSE <<>>)
  \o (IF post.frozen # (pre.frozen \/ (r.op.name = "freeze" /\ r.res = "ok")) THEN <<"C18:is_frozen">> ELSE <<>>)

Verdict(r) ==
  IF r.preanom # <<>> THEN <<"tainted">> ELSE
  LET pre == FromJ(r.pre) IN
  IF ~Integrity(pre) THEN <<"tainted">>
  \* outside the documented domain the outcome is open, the invariants of every reachable state are not
  \* ("whether each call returns or raises")
  ELSE IF Unspecified(pre, r.op) THEN
    (IF r.postanom = <<>> /\ StateClauses(FromJ(r.post)) # <<>> THEN StateClauses(FromJ(r.post)) ELSE <<"unspecified">>)
  ELSE IF r.postanom # <<>> THEN <<"C01:anomaly." \o r.postanom[1]>>
  ELSE
    LET post == FromJ(r.post)
        outs0 == Outcomes(pre, r.op, post.nodes)
        outs == IF r.op.name \in {"merge_duplicate_edges", "cleanup"}
                  THEN {IF o.res = "ok" THEN [o EXCEPT !.st = AlignEdges(o.st, post, r.op.name = "cleanup" /\ r.op.b5)] ELSE o
                        : o \in outs0}
                  ELSE outs0
        inv  == StateClauses(post) \o ActionClauses(pre, r, post)
    IN IF \E o \in outs : Mismatch(o, r, post) = "ok" THEN inv
       ELSE LET o == IF \E x \in outs : x.res = r.res THEN CHOOSE x \in outs : x.res = r.res
                     ELSE CHOOSE x \in outs : TRUE
            \* an add-type call whose outcome is not admitted also counts against C04 (adding must
            \* create exactly the announced ids and leave everything else alone)
            IN <<"C05:" \o Mismatch(o, r, post)>>
               \o (IF r.op.name \in AddOps THEN <<"C04:AddMismatch." \o Mismatch(o, r, post)>> ELSE <<>>) \o inv

Init == i = 0
Next == i < Len(Recs) /\ i' = i + 1
Spec == Init /\ [][Next]_i

Report == i = 0 \/ LET v == Verdict(Recs[i])
                   IN v = <<>> \/ PrintT(ToJson([rid |-> Recs[i].rid, v |-> v]))
Done == PrintT(ToJson([consumed |-> TLCGet("stats").diameter - 1, total |-> Len(Recs)]))
=============================================================================
