------------------------------ MODULE TraceSC ------------------------------
(***************************************************************************)
(* Trace validation for xgi.SimplicialComplex (scheme: see TraceHG).        *)
(* Choices read off the logged post-state: node creation order (post.nodes) *)
(* and the order in which faces received automatic ids (the member sets of  *)
(* the ids that are new in post, in id-creation order).                     *)
(* Records may carry obs.has: a sequence of <<members, answer>> pairs       *)
(* logged from has_simplex on the post-state.                               *)
(***************************************************************************)
EXTENDS SC, Json, IOUtils

Recs == ndJsonDeserialize(IOEnv.TRACE_FILE)
VARIABLE i

Mismatch(o, r, post) ==
  CASE o.res # r.res -> "result"
    [] o.st.nodes # post.nodes -> "nodes"
    [] o.st.edges # post.edges -> "edges"
    [] o.st.e2n # post.e2n -> "e2n"
    [] o.st.n2e # post.n2e -> "n2e"
    [] o.st.nattr # post.nattr -> "nattr"
    [] o.st.eattr # post.eattr -> "eattr"
    [] o.st.gattr # post.gattr -> "gattr"
    [] o.st.frozen # post.frozen -> "frozen"
    [] post.uid < o.st.uid -> "uid"
    [] o.warn > 0 /\ r.warn = 0 -> "warning"
    [] OTHER -> "ok"

StateClauses(post) ==
  (IF Integrity(post) THEN <<>> ELSE <<"C03:Integrity." \o FirstFailing(IntegrityClauses(post))>>)
  \o (IF DOMAIN post.e2n = EdgeSet(post) /\ ~SCInv(post) THEN <<"C03:" \o FirstFailing(SCClauses(post))>> ELSE <<>>)
  \o (IF UidFresh(post) THEN <<>> ELSE <<"C04:UidFresh">>)

WF(post) == DOMAIN post.eattr = EdgeSet(post) /\ DOMAIN post.e2n = EdgeSet(post)

ActionClauses(pre, r, post) ==
  (IF r.op.name \in SCAddOps /\ WF(post) /\ ~(AddsPreserve(pre, post) /\ AddsPreserveMembers(pre, post))
     THEN <<"C04:AddsPreserve">> ELSE <<>>)
  \o (IF r.op.name \in {"remove_simplex_id", "remove_edge"} /\ r.res = "ok" /\ WF(post)
         /\ ~RemoveExact(pre, r.op.e, post) THEN <<"C03:RemoveExact">> ELSE <<>>)
  \o (IF r.op.name \in {"remove_simplex_ids_from", "remove_edges_from"} /\ r.res = "ok" /\ WF(post)
         /\ ~RemoveExactBulk(pre, Range(r.op.ns), post) THEN <<"C03:RemoveExact.bulk">> ELSE <<>>)
  \o (IF r.op.name \in {"add_simplices_from", "add_weighted_simplices_from", "add_weighted_edges_from"} /\ WF(post) /\ ~MaxOrderRespected(pre, r.op.n2, post)
         THEN <<"C03:MaxOrderRespected">> ELSE <<>>)
  \o (IF WF(post) /\ \E k \in DOMAIN r.has : r.has[k][2] # HasSimplex(post, Range(r.has[k][1]))
         THEN <<"C03:has_simplex">> ELSE <<>>)
  \o (IF pre.frozen /\ (Struct(post) # Struct(pre) \/ ~post.frozen) THEN <<"C18:FrozenImmutable">> ELSE <<>>)
  \* a call that would change the structure of an unfrozen twin must be rejected
  \o (IF pre.frozen /\ r.op.name \in SCStructuralOps /\ r.res # "liberr"
         /\ ~(\E o \in SCUnfrozen([pre EXCEPT !.frozen = FALSE], r.op, post.nodes, <<>>) : o.res = r.res /\ Struct(o.st) = Struct(pre))
       THEN <<"C18:NotRejected">> ELSE <<>>)
  \o (IF post.frozen # (pre.frozen \/ (r.op.name = "freeze" /\ r.res = "ok")) THEN <<"C18:is_frozen">> ELSE <<>>)

Verdict(r) ==
  IF r.preanom # <<>> THEN <<"tainted">> ELSE
  LET pre == FromJ(r.pre) IN
  IF ~Integrity(pre) \/ ~SCInv(pre) THEN <<"tainted">>
  \* outside the documented domain the outcome is open, the invariants of every reachable state are not
  \* ("whether each call returns or raises")
  ELSE IF SCUnspecified(pre, r.op) THEN
    (IF r.postanom = <<>> /\ StateClauses(FromJ(r.post)) # <<>> THEN StateClauses(FromJ(r.post)) ELSE <<"unspecified">>)
  ELSE IF r.postanom # <<>> THEN <<"C03:anomaly." \o r.postanom[1]>>
  ELSE
    LET post == FromJ(r.post)
        newIds == SelectSeq(post.edges, LAMBDA e : e \notin EdgeSet(pre))
        ford == [k \in DOMAIN newIds |-> post.e2n[newIds[k]]]
        outs == SCOutcomes(pre, r.op, post.nodes, ford)
        inv  == StateClauses(post) \o ActionClauses(pre, r, post)
    IN IF \E o \in outs : Mismatch(o, r, post) = "ok" THEN inv
       ELSE LET o == IF \E x \in outs : x.res = r.res THEN CHOOSE x \in outs : x.res = r.res
                     ELSE CHOOSE x \in outs : TRUE
            \* an add-type call whose outcome is not admitted also counts against C04 (adding must
            \* create exactly the announced ids and leave everything else alone)
            IN <<"C05:" \o Mismatch(o, r, post)>>
               \o (IF r.op.name \in SCAddOps THEN <<"C04:AddMismatch." \o Mismatch(o, r, post)>> ELSE <<>>) \o inv

Init == i = 0
Next == i < Len(Recs) /\ i' = i + 1
Spec == Init /\ [][Next]_i
Report == i = 0 \/ LET v == Verdict(Recs[i])
                   IN v = <<>> \/ PrintT(ToJson([rid |-> Recs[i].rid, v |-> v]))
Done == PrintT(ToJson([consumed |-> TLCGet("stats").diameter - 1, total |-> Len(Recs)]))
=============================================================================
