------------------------------ MODULE TraceC15 ------------------------------
(***************************************************************************)
(* C15: simpliciality measures against their combinatorial definitions,     *)
(* computed by exhaustive enumeration (SUBSET of the maximal edges).         *)
(* Values are exact rationals; NaN (undefined) is the pair <<0, 0>>.         *)
(***************************************************************************)
EXTENDS Derived, Json, IOUtils
Recs == ndJsonDeserialize(IOEnv.TRACE_FILE)
VARIABLE i

NaN == <<0, 0>>
Same(a, b) == IF a[2] = 0 \/ b[2] = 0 THEN a[2] = 0 /\ b[2] = 0 ELSE REq(a, b)
EdgeSets(S) == {S.e2n[e] : e \in EdgeSet(S)}
MaxElig(S, ms, ex) == {S.e2n[e] : e \in {f \in Range(MaximalOf(S, FALSE)) : SizeOf(S, f) >= ms + ex}}
Missing(S, X, ms) == {Y \in SUBSET X : Cardinality(Y) >= ms /\ Y # X /\ Y \notin EdgeSets(S)}
RECURSIVE Binom(_, _)
Binom(n, k) == IF k = 0 THEN 1 ELSE IF n = 0 THEN 0 ELSE Binom(n - 1, k - 1) + Binom(n - 1, k)
MaxSub(ms, n) == (2 ^ n - 2) - SumSeq([q \in 1..(ms - 1) |-> Binom(n, q)])

\* simplicial edit distance: node sets (>= ms) inside some eligible maximal edge that are not edges
SED(S, ms, ex, normalize) ==
  LET M == MaxElig(S, ms, ex)
      d == Cardinality(UNION {Missing(S, X, ms) : X \in M})
      s == Cardinality({e \in EdgeSet(S) : SizeOf(S, e) >= ms})
      den == s - Cardinality(M) + d
  IN IF M = {} THEN NaN
     ELSE IF ~normalize THEN <<d, 1>>
     ELSE IF den > 0 THEN Rat(d, den) ELSE NaN
OneMinus(x) == IF x[2] = 0 THEN NaN ELSE Rat(x[2] - x[1], x[2])
\* mean face edit distance: average share of missing subfaces over the eligible maximal edges
MFED(S, ms, ex, normalize) ==
  LET M == MaxElig(S, ms, ex) IN
  IF M = {} THEN <<0, 1>>
  ELSE LET per(X) == LET d == Cardinality(Missing(S, X, ms))  m == MaxSub(ms, Cardinality(X))
                     IN IF normalize /\ m # 0 THEN Rat(d, m) ELSE <<d, 1>>
           seqM == CHOOSE q \in [1..Cardinality(M) -> M] : \A a, b \in 1..Cardinality(M) : a # b => q[a] # q[b]
       IN RDiv(FoldL(LAMBDA acc, X : RAdd(acc, per(X)), <<0, 1>>, seqM), <<Cardinality(M), 1>>)
\* simplicial fraction: share of eligible edges all of whose subsets (>= ms) are edges
SF(S, ms, ex) ==
  LET E == {e \in EdgeSet(S) : SizeOf(S, e) >= ms + ex}
      good == {e \in E : \A Y \in SUBSET S.e2n[e] : Cardinality(Y) >= ms => Y \in EdgeSets(S)}
  IN IF E = {} THEN NaN ELSE Rat(Cardinality(good), Cardinality(E))

InUnit(x) == x[2] = 0 \/ (x[1] >= 0 /\ x[1] <= x[2])
IsClosedHG(S) == \A e \in EdgeSet(S) : \A Y \in SUBSET S.e2n[e] : Cardinality(Y) >= 1 => Y \in EdgeSets(S)

\* the exact formulas are stated for hypergraphs without repeated edges; the range of the
\* scores and their value on downward-closed hypergraphs for every hypergraph
Formulas(S, e) ==
  /\ Same(e.sed, SED(S, e.ms, e.ex, e.norm))
  /\ Same(e.es, OneMinus(SED(S, e.ms, e.ex, TRUE)))
  /\ Same(e.mfed, MFED(S, e.ms, e.ex, e.norm))
  /\ Same(e.fes, OneMinus(MFED(S, e.ms, e.ex, TRUE)))
  /\ Same(e.sf, SF(S, e.ms, e.ex))
EntryOK(S, e, multi) ==
  /\ multi \/ Formulas(S, e)
  /\ InUnit(e.es) /\ InUnit(e.fes) /\ InUnit(e.sf)
  /\ (IsClosedHG(S) => (e.es[2] = 0 \/ REq(e.es, <<1, 1>>)) /\ (e.fes[2] = 0 \/ REq(e.fes, <<1, 1>>))
                        /\ (e.sf[2] = 0 \/ REq(e.sf, <<1, 1>>)))

Verdict(r) ==
  IF r.anom # <<>> THEN <<"C15:raised." \o r.anom[1]>> ELSE
  LET S == FromJ(r.st) IN
  \* the input was built by the harness through public calls only: if it is not even consistent the
  \* check cannot vouch for the property on it (and some call broke C01 / C03 on the way)
  IF ~Integrity(S) THEN <<"C15:input.not-a-consistent-network">>
  ELSE LET bad == SelectSeq([k \in DOMAIN r.obs |-> k], LAMBDA k : ~EntryOK(S, r.obs[k], r.multi))
       IN [k \in DOMAIN bad |-> "C15:" \o r.obs[bad[k]].what]

Init == i = 0
Next == i < Len(Recs) /\ i' = i + 1
Spec == Init /\ [][Next]_i
Report == i = 0 \/ LET v == Verdict(Recs[i])
                   IN v = <<>> \/ PrintT(ToJson([rid |-> Recs[i].rid, v |-> v]))
Done == PrintT(ToJson([consumed |-> TLCGet("stats").diameter - 1, total |-> Len(Recs)]))
=============================================================================
