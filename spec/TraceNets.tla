------------------------------ MODULE TraceNets ------------------------------
(***************************************************************************)
(* C07 / C08 trace validation over several live networks.  Record:          *)
(*   [rid, kind, a, b, name, pre, post, anom]                               *)
(* pre / post: sequences (one entry per slot) of J states or Null, projected *)
(* from ALL live objects before and after the step.                          *)
(* kind: "edit" (a = b = edited slot), "copy" | "pickle" | "ctor" (a source,  *)
(* b target), "query" (read-only call `name` on slot a; b = 0: no target).    *)
(***************************************************************************)
EXTENDS Nets, Json, IOUtils
Recs == ndJsonDeserialize(IOEnv.TRACE_FILE)
VARIABLE i

Clauses(r) ==
  LET pre == r.pre  post == r.post IN
  << <<"C07:Frame", r.kind = "query" \/ Frame(pre, post, r.b)>>,
     <<"C08:Unchanged", r.kind # "query" \/ Frame(pre, post, 0)>>,
     <<"C07:CopyEqual", r.kind # "copy" \/ (~IsNull(post[r.b]) /\ CopyEqual(pre[r.a], post[r.b]))>>,
     <<"C07:PickleEqual", r.kind # "pickle" \/ (~IsNull(post[r.b]) /\ PickleEqual(pre[r.a], post[r.b]))>>,
     <<"C07:CtorEqual", r.kind # "ctor" \/ (~IsNull(post[r.b]) /\ CtorEqual(pre[r.a], post[r.b]))>>,
     <<"C07:UidFresh", r.kind = "query" \/ \A k \in DOMAIN post : IsNull(post[k]) \/ UidFreshJ(post[k])>>,
     <<"C07:AddsPreserve", ~(r.kind = "edit" /\ r.name \in {"add_auto", "add_explicit"})
                             \/ KeepsEdgesJ(pre[r.a], post[r.a])>> >>

Verdict(r) ==
  IF r.anom # <<>> THEN <<(IF r.kind = "query" THEN "C08:anomaly." ELSE "C07:anomaly.") \o r.anom[1]>>
  ELSE LET cl == Clauses(r)
           bad == SelectSeq([k \in DOMAIN cl |-> k], LAMBDA k : ~cl[k][2])
       IN [k \in DOMAIN bad |-> cl[bad[k]][1]]

Init == i = 0
Next == i < Len(Recs) /\ i' = i + 1
Spec == Init /\ [][Next]_i
Report == i = 0 \/ LET v == Verdict(Recs[i])
                   IN v = <<>> \/ PrintT(ToJson([rid |-> Recs[i].rid, v |-> v]))
Done == PrintT(ToJson([consumed |-> TLCGet("stats").diameter - 1, total |-> Len(Recs)]))
=============================================================================
