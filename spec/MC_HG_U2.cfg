SPECIFICATION Spec
CONSTANTS
  NN = 2
  EdgeIds = {0, 1, 100}
  MaxUid = 2
  MaxEdges = 2
  MaxAttr = 1
  Rich = FALSE
  Emit = FALSE
CONSTRAINT Bounded
VIEW View
INVARIANT InvIntegrity
INVARIANT InvUidFresh
PROPERTY PropAddsPreserve
PROPERTY PropAddNodeToEdgePreserve
PROPERTY PropSwapPreserves
PROPERTY PropFrozen
PROPERTY PropErrNoChange
CHECK_DEADLOCK FALSE
