------------------------------- MODULE TraceGen -------------------------------
(* C16 records: [rid, kind, p, out, res, tbl]; kind "gen" (a generated network)  *)
(* or "comb" / "prod" / "part" (an index decoding table).                        *)
EXTENDS Gen, Json, IOUtils
Recs == ndJsonDeserialize(IOEnv.TRACE_FILE)
VARIABLE i

Verdict(r) ==
  IF r.kind = "gen" THEN
     IF r.res # "ok" THEN <<"C16:" \o r.gname \o ".raised." \o r.res>>
     ELSE IF r.anom # <<>> THEN <<"C16:" \o r.gname \o ".anomaly." \o r.anom[1]>>
     ELSE IF GenPost(r.p, FromJ(r.out)) THEN <<>> ELSE <<"C16:" \o r.gname \o ".postcondition">>
  ELSE IF r.kind = "comb" THEN (IF CombTable(r.p.n, r.p.m, r.tbl) THEN <<>> ELSE <<"C16:index_to_edge_comb">>)
  ELSE IF r.kind = "prod" THEN (IF ProdTable(r.p.n, r.p.m, r.tbl) THEN <<>> ELSE <<"C16:index_to_edge_prod">>)
  ELSE (IF PartTable(r.p.sizes, r.tbl) THEN <<>> ELSE <<"C16:index_to_edge_partition">>)

Init == i = 0
Next == i < Len(Recs) /\ i' = i + 1
Spec == Init /\ [][Next]_i
Report == i = 0 \/ LET v == Verdict(Recs[i])
                   IN v = <<>> \/ PrintT(ToJson([rid |-> Recs[i].rid, v |-> v]))
Done == PrintT(ToJson([consumed |-> TLCGet("stats").diameter - 1, total |-> Len(Recs)]))
=============================================================================
