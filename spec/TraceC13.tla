------------------------------ MODULE TraceC13 ------------------------------
(***************************************************************************)
(* C13: boundary operators form a chain complex.  Record                   *)
(*   [rid, st, B, L] : st the simplicial complex (J form); B a sequence of  *)
(*   [k, rows, cols, m] for k = 1 .. dim+1 (boundary_matrix(order=k) under  *)
(*   the logged orientation assignment, labels from the returned index      *)
(*   maps); L a sequence of [k, ids, m] (hodge_laplacian(order=k)).         *)
(* No sign convention is fixed: only what the property states.             *)
(***************************************************************************)
EXTENDS SC, Json, IOUtils
Recs == ndJsonDeserialize(IOEnv.TRACE_FILE)
VARIABLE i

\* simplices with k+1 nodes, in view order; the 0-simplices are the nodes
SimplicesOfOrder(S, k) == IF k = 0 THEN S.nodes ELSE SelectSeq(S.edges, LAMBDA e : Cardinality(S.e2n[e]) = k + 1)
NodesOf(S, k, x) == IF k = 0 THEN {x} ELSE S.e2n[x]

ColumnsAreFaces(S, b) ==
  /\ b.rows = SimplicesOfOrder(S, b.k - 1) /\ b.cols = SimplicesOfOrder(S, b.k)
  /\ Len(b.m) = Len(b.rows)
  /\ \A r \in DOMAIN b.rows : Len(b.m[r]) = Len(b.cols) /\
       \A c \in DOMAIN b.cols :
          /\ b.m[r][c] \in {-1, 0, 1}
          /\ (b.m[r][c] # 0) <=> (NodesOf(S, b.k - 1, b.rows[r]) \subseteq NodesOf(S, b.k, b.cols[c]))
  /\ \A c \in DOMAIN b.cols : Cardinality({r \in DOMAIN b.rows : b.m[r][c] # 0}) = b.k + 1
  /\ (b.k = 1 => \A c \in DOMAIN b.cols : SumSeq([r \in DOMAIN b.rows |-> b.m[r][c]]) = 0)

Prod(A, B, r, c, n) == SumSeq([k \in 1..n |-> A[r][k] * B[k][c]])
ProductZero(b1, b2) ==
  b1.cols = b2.rows /\
  \A r \in DOMAIN b1.rows : \A c \in DOMAIN b2.cols : Prod(b1.m, b2.m, r, c, Len(b1.cols)) = 0

\* L_k = B_k^T B_k + B_{k+1} B_{k+1}^T  (B_0 = 0, B_{dim+1} has no columns)
HodgeIs(l, bk, bk1) ==
  /\ l.ids = bk1.rows
  /\ \A a \in DOMAIN l.ids : \A c \in DOMAIN l.ids :
       l.m[a][c] = (IF bk.k = 0 THEN 0 ELSE SumSeq([r \in DOMAIN bk.rows |-> bk.m[r][a] * bk.m[r][c]]))
                   + SumSeq([x \in DOMAIN bk1.cols |-> bk1.m[a][x] * bk1.m[c][x]])
Symmetric(l) == \A a \in DOMAIN l.ids : \A c \in DOMAIN l.ids : l.m[a][c] = l.m[c][a]

Clauses(S, r) ==
  << <<"columns.are.faces", \A k \in DOMAIN r.B : ColumnsAreFaces(S, r.B[k])>>,
     <<"product.zero", \A k \in DOMAIN r.B : k = 1 \/ ProductZero(r.B[k - 1], r.B[k])>>,
     <<"hodge.identity", \A k \in DOMAIN r.L :
          HodgeIs(r.L[k], IF k = 1 THEN [k |-> 0, rows |-> <<>>, cols |-> <<>>, m |-> <<>>] ELSE r.B[k - 1], r.B[k])
          /\ Symmetric(r.L[k])>> >>

Verdict(r) ==
  IF r.anom # <<>> THEN <<"C13:raised." \o r.anom[1]>> ELSE
  LET S == FromJ(r.st) IN
  \* the input was built by the harness through public calls only: if it is not even consistent the
  \* check cannot vouch for the property on it (and some call broke C01 / C03 on the way)
  IF ~Integrity(S) \/ ~SCInv(S) THEN <<"C13:input.not-a-consistent-network">>
  ELSE LET cl == Clauses(S, r)
           bad == SelectSeq([k \in DOMAIN cl |-> k], LAMBDA k : ~cl[k][2])
       IN [k \in DOMAIN bad |-> "C13:" \o cl[bad[k]][1]]

Init == i = 0
Next == i < Len(Recs) /\ i' = i + 1
Spec == Init /\ [][Next]_i
Report == i = 0 \/ LET v == Verdict(Recs[i])
                   IN v = <<>> \/ PrintT(ToJson([rid |-> Recs[i].rid, v |-> v]))
Done == PrintT(ToJson([consumed |-> TLCGet("stats").diameter - 1, total |-> Len(Recs)]))
=============================================================================
