------------------------------ MODULE TraceC12 ------------------------------
(***************************************************************************)
(* C12: matrix representations against Matrices.tla.  Record               *)
(*   [rid, st, obs] with obs a sequence of entries                         *)
(*   [kind, d, s, w, resc, rows, cols, m, mr, ds, ws, tuples, val]         *)
(* rows / cols: the labels (abstract ids) of the returned index maps, m an  *)
(* integer matrix (sequence of rows), mr a matrix of exact rationals.       *)
(***************************************************************************)
EXTENDS Matrices, Json, IOUtils
Recs == ndJsonDeserialize(IOEnv.TRACE_FILE)
VARIABLE i

RECURSIVE Fact(_)
Fact(n) == IF n <= 1 THEN 1 ELSE n * Fact(n - 1)

IntMat(e, f(_, _)) ==
  /\ Len(e.m) = Len(e.rows)
  /\ \A a \in DOMAIN e.rows : Len(e.m[a]) = Len(e.cols)
        /\ \A b \in DOMAIN e.cols : e.m[a][b] = f(e.rows[a], e.cols[b])
RatMat(e, f(_, _)) ==
  /\ Len(e.mr) = Len(e.rows)
  /\ \A a \in DOMAIN e.rows : Len(e.mr[a]) = Len(e.cols)
        /\ \A b \in DOMAIN e.cols : REq(e.mr[a][b], f(e.rows[a], e.cols[b]))

EntryOK(S, e) ==
  LET cols == EdgesOfOrder(S, e.d) IN
  CASE e.kind = "incidence" ->
         IF cols = <<>> \/ S.nodes = <<>> THEN e.m = <<>>
         ELSE e.rows = S.nodes /\ e.cols = cols /\ IntMat(e, LAMBDA n, x : In(S, n, x))
    [] e.kind = "adjacency" ->
         e.rows = S.nodes /\ e.cols = S.nodes /\ IntMat(e, LAMBDA a, b : Adj(S, e.d, e.s, e.w, a, b))
    [] e.kind = "clique_motif" ->
         e.rows = S.nodes /\ e.cols = S.nodes /\ IntMat(e, LAMBDA a, b : Adj(S, None, 1, TRUE, a, b))
    [] e.kind = "degree" ->
         e.rows = S.nodes /\ e.m = << [k \in DOMAIN S.nodes |-> DegOrd(S, e.d, S.nodes[k])] >>
    [] e.kind = "intersection" ->
         IF cols = <<>> \/ S.nodes = <<>> THEN e.m = <<>>
         ELSE e.rows = cols /\ e.cols = cols /\ IntMat(e, LAMBDA x, y : Intersection(S, x, y))
    [] e.kind = "laplacian" ->
         IF S.nodes = <<>> THEN e.m = <<>> /\ e.mr = <<>>
         ELSE e.rows = S.nodes /\ e.cols = S.nodes /\
              (IF e.resc THEN RatMat(e, LAMBDA a, b : Rat(Lap(S, e.d, a, b), e.d))
               ELSE IntMat(e, LAMBDA a, b : Lap(S, e.d, a, b)))
    [] e.kind = "multiorder" ->
         e.rows = S.nodes /\ e.cols = S.nodes /\ RatMat(e, LAMBDA a, b : MultiLap(S, e.ds, e.ws, e.resc, a, b))
    [] e.kind = "normcore" ->
         e.rows = S.nodes /\ e.cols = S.nodes /\ RatMat(e, LAMBDA a, b : NormCore(S, a, b))
    [] e.kind = "normcorew" ->
         e.rows = S.nodes /\ e.cols = S.nodes /\ RatMat(e, LAMBDA a, b : NormCoreW(S, a, b))
    [] e.kind = "tensor" ->
         LET sets == {S.e2n[x] : x \in Range(cols)} IN
         /\ e.m[1] = [k \in 1..(e.d + 1) |-> Len(S.nodes)]   \* also when no edge has the requested order
         /\ \A k \in DOMAIN e.tuples : NoDup(e.tuples[k]) /\ Range(e.tuples[k]) \in sets
         /\ Cardinality(Range(e.tuples)) = Len(e.tuples)
         /\ Len(e.tuples) = Cardinality(sets) * Fact(e.d + 1)
         /\ (e.tuples = <<>> \/ REq(e.val, IF e.w THEN Rat(1, Fact(e.d)) ELSE <<1, 1>>))
    [] e.kind = "raised" -> FALSE

Verdict(r) ==
  LET S == FromJ(r.st) IN
  \* the input was built by the harness through public calls only: if it is not even consistent the
  \* check cannot vouch for the property on it (and some call broke C01 / C03 on the way)
  IF ~Integrity(S) THEN <<"C12:input.not-a-consistent-network">>
  ELSE LET bad == SelectSeq([k \in DOMAIN r.obs |-> k], LAMBDA k : ~EntryOK(S, r.obs[k]))
       IN [k \in DOMAIN bad |-> "C12:" \o r.obs[bad[k]].what]

Init == i = 0
Next == i < Len(Recs) /\ i' = i + 1
Spec == Init /\ [][Next]_i
Report == i = 0 \/ LET v == Verdict(Recs[i])
                   IN v = <<>> \/ PrintT(ToJson([rid |-> Recs[i].rid, v |-> v]))
Done == PrintT(ToJson([consumed |-> TLCGet("stats").diameter - 1, total |-> Len(Recs)]))
=============================================================================
