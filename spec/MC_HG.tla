------------------------------- MODULE MC_HG -------------------------------
(***************************************************************************)
(* Exhaustive model of one Hypergraph object under the public mutator       *)
(* alphabet, over a bounded universe.  TLC explores it to a fixpoint, so    *)
(* every invariant holds for histories of any length inside the universe.   *)
(* The run also emits (i) the alphabet and (ii) every distinct reachable     *)
(* state as JSON: these are the inputs that the harness replays into the     *)
(* real code (S->C); the implementation's answers come back as trace         *)
(* records and are validated by TraceHG.                                     *)
(***************************************************************************)
EXTENDS HG, Json

CONSTANTS NN,        \* nodes are 0..NN-1
          EdgeIds,   \* explicit edge ids offered to the calls
          MaxUid, MaxEdges, MaxAttr, MaxLevel,
          WithFreeze, \* TRUE: freeze is part of the alphabet (C18)
          Rich,      \* TRUE: the large alphabet (thorough tier)
          Emit       \* TRUE: print alphabet and states as JSON

SX == INSTANCE SequencesExt
VARIABLES st, last
vars == <<st, last>>

Nodes == 0..(NN - 1)
A0 == <<>>
A1 == << <<1, <<0, 1>> >> >>                \* {color: 1}
A2 == << <<1, <<0, 2>> >>, <<2, <<1, 5>> >> >>  \* {color: 2, weight: [5]}
MemberSeqs == {SortSeqOf(X) : X \in SUBSET Nodes}
NoneSeqs == {<<0, None>>}
O(name) == [OpDefaults EXCEPT !.name = name]
Item(m, id, a) == [m |-> m, id |-> id, a |-> a, w |-> <<0, 3>>]
NItem(n, a) == [m |-> <<>>, id |-> n, a |-> a, w |-> <<2>>]

BulkMembers == {<<>>, <<0>>, SortSeqOf(Nodes), <<0, None>>}
ItemsFor(fmt) ==
  CASE fmt = 1 -> {Item(m, None, A0) : m \in BulkMembers}
    [] fmt = 2 -> {Item(m, id, A0) : m \in {<<0>>, SortSeqOf(Nodes)}, id \in {0, 1, 100}}
    [] fmt = 3 -> {Item(m, None, a) : m \in {<<0>>, SortSeqOf(Nodes)}, a \in {A1}}
    [] fmt = 4 -> {Item(m, id, A1) : m \in {<<>>, SortSeqOf(Nodes)}, id \in {1, 0}}
    [] fmt = 5 -> {Item(m, id, A0) : m \in {<<1>>, SortSeqOf(Nodes)}, id \in {0, 2}}
Bulk(fmt) == {<<x>> : x \in ItemsFor(fmt)} \cup
             (IF Rich THEN {<<x, y>> : x \in ItemsFor(fmt), y \in ItemsFor(fmt)}
              ELSE {<<x, y>> : x \in ItemsFor(fmt), y \in {CHOOSE z \in ItemsFor(fmt) : TRUE}})
\* a python dict cannot repeat a key
BulkOK(fmt, its) == fmt # 5 \/ Len(its) < 2 \/ its[1].id # its[2].id

Alphabet ==
     {[O("add_node") EXCEPT !.n = n, !.a = a] : n \in Nodes \cup {None}, a \in {A0, A1}}
  \cup {[O("add_nodes_from") EXCEPT !.fmt = 1, !.items = its, !.a = a] :
          its \in {<<NItem(0, A0), NItem(1, A0)>>, <<NItem(1, A0), NItem(None, A0)>>, <<>>}, a \in {A0, A1}}
  \cup {[O("add_nodes_from") EXCEPT !.fmt = 2, !.items = its, !.a = A1] :
          its \in {<<NItem(1, A2), NItem(0, A0)>>}}
  \cup {[O("remove_node") EXCEPT !.n = n, !.b1 = s, !.b2 = r] :
          n \in Nodes, s \in BOOLEAN, r \in BOOLEAN}
  \cup {[O("remove_nodes_from") EXCEPT !.ns = ns, !.b1 = s, !.b2 = TRUE] :
          ns \in {<<0, 1>>, <<1, 1>>}, s \in BOOLEAN}
  \cup {[O("set_node_attributes") EXCEPT !.fmt = 1, !.k = 2, !.v = <<0, 7>>]}
  \cup {[O("set_node_attributes") EXCEPT !.fmt = 2, !.k = 1, !.kv = << <<0, <<0, 4>> >>, <<1, <<2>> >> >>]}
  \cup {[O("set_node_attributes") EXCEPT !.fmt = 3, !.kd = << <<1, A2>> >>]}
  \cup {[O("set_node_attributes") EXCEPT !.fmt = 4]}
  \cup {[O("set_edge_attributes") EXCEPT !.fmt = 1, !.k = 2, !.v = <<0, 7>>]}
  \cup {[O("set_edge_attributes") EXCEPT !.fmt = 2, !.k = 1, !.kv = << <<0, <<0, 4>> >>, <<100, <<2>> >> >>]}
  \cup {[O("set_edge_attributes") EXCEPT !.fmt = 3, !.kd = << <<1, A2>>, <<2, A1>> >>]}
  \cup {[O("set_edge_attributes") EXCEPT !.fmt = 4]}
  \cup {[O("add_edge") EXCEPT !.m = m, !.id = id, !.a = a] :
          m \in MemberSeqs \cup NoneSeqs, id \in EdgeIds \cup {None}, a \in {A0, A1}}
  \cup UNION {{[O("add_edges_from") EXCEPT !.fmt = f, !.items = its, !.a = a] :
          its \in {x \in Bulk(f) : BulkOK(f, x)}, a \in IF Rich THEN {A0, A2} ELSE {A0}} : f \in 1..5}
  \cup {[O("add_edges_from") EXCEPT !.fmt = 4, !.items = <<Item(<<0>>, 1, A1)>>, !.a = A2],
        [O("add_edges_from") EXCEPT !.fmt = 1, !.items = <<Item(<<0>>, None, A0)>>, !.a = A2]}
  \cup {[O("add_edges_from") EXCEPT !.fmt = 1]}
  \cup {[O("add_weighted_edges_from") EXCEPT !.items = <<Item(SortSeqOf(Nodes), None, A0), Item(<<0>>, None, A0)>>, !.k = 2, !.a = a] : a \in {A0, A1}}
  \cup {[O("remove_edge") EXCEPT !.e = e] : e \in EdgeIds}
  \cup {[O("remove_edges_from") EXCEPT !.ns = es] : es \in {<<0, 1>>, <<1, 2>>, <<100>>, <<>>}}
  \cup {[O("add_node_to_edge") EXCEPT !.e = e, !.n = n] : e \in EdgeIds \cup {None}, n \in Nodes \cup {None}}
  \cup {[O("remove_node_from_edge") EXCEPT !.e = e, !.n = n, !.b1 = r] :
          e \in EdgeIds, n \in Nodes, r \in BOOLEAN}
  \cup {[O("double_edge_swap") EXCEPT !.n = n, !.n2 = n2, !.e = e, !.e2 = e2] :
          n \in Nodes, n2 \in Nodes, e \in {0, 1}, e2 \in {0, 1, 2}}
  \cup {[O("random_edge_shuffle") EXCEPT !.e = e, !.e2 = e2] : e \in {0, None}, e2 \in {1, None}}
  \cup {[O("clear") EXCEPT !.b1 = b] : b \in BOOLEAN}
  \cup {O("clear_edges")}
  \cup {[O("update") EXCEPT !.ns = <<1>>, !.fmt = 1, !.items = <<Item(<<0>>, None, A0)>>]}
  \cup {[O("merge_duplicate_edges") EXCEPT !.s1 = t[1], !.s2 = t[2], !.k = t[3]] :
          t \in {u \in {"first", "tuple", "new", "bogus"} \X {"first", "union", "intersection", "bogus"} \X {0, 3} :
                   Rich \/ (u[3] = 0 /\ (u[1] # "bogus" \/ u[2] = "first"))
                        \/ (u[3] = 3 /\ u[1] = "first" /\ u[2] = "first")}}
  \cup {[O("cleanup") EXCEPT !.b1 = t[1], !.b2 = t[2], !.b3 = t[3], !.b4 = t[4], !.b5 = t[5]] :
          t \in {u \in BOOLEAN \X BOOLEAN \X BOOLEAN \X BOOLEAN \X BOOLEAN : Rich \/ u[4] = u[5]}}
  \cup {O("convert_labels_to_integers"), O("largest_connected_hypergraph")}
  \cup (IF Rich THEN {[O("set_net_attr") EXCEPT !.k = 1, !.v = <<0, 1>>]} ELSE {})
  \cup (IF Rich \/ WithFreeze THEN {O("freeze")} ELSE {})

Ords(op) == IF op.name \in {"add_edge", "add_edges_from", "add_weighted_edges_from", "update"}
              THEN Perms(Nodes) ELSE {SortSeqOf(Nodes)}

Init == st = EmptyHG /\ last = [op |-> OpDefaults, res |-> "init"]
Next == \E op \in Alphabet : \E ord \in Ords(op) : \E o \in Outcomes(st, op, ord) :
           st' = o.st /\ last' = [op |-> op, res |-> o.res]
Spec == Init /\ [][Next]_vars
\* the same graph without the op history variable: used to emit each distinct state once
NextE == \E op \in Alphabet : \E ord \in Ords(op) : \E o \in Outcomes(st, op, ord) :
            st' = o.st /\ UNCHANGED last
SpecE == Init /\ [][NextE]_vars

AttrCount(S) == SumSet(LAMBDA n : Cardinality(DOMAIN S.nattr[n]), DOMAIN S.nattr)
                + SumSet(LAMBDA e : Cardinality(DOMAIN S.eattr[e]), DOMAIN S.eattr)
                + Cardinality(DOMAIN S.gattr)
Bounded == TLCGet("level") <= MaxLevel /\ st.uid <= MaxUid /\ AttrCount(st) <= MaxAttr /\ Len(st.edges) <= MaxEdges
           /\ \A e \in EdgeSet(st) : e < 2000000

View == st

InvIntegrity == Integrity(st)
InvUidFresh == UidFresh(st)
InvFrozenStays == TRUE
\* action properties
PropAddsPreserve == [][last'.op.name \in (AddOps \ {"add_node_to_edge"}) => (AddsPreserve(st, st') /\ AddsPreserveMembers(st, st'))]_vars
PropAddNodeToEdgePreserve == [][last'.op.name = "add_node_to_edge" => AddsPreserve(st, st')]_vars
PropSwapPreserves == [][last'.op.name \in {"double_edge_swap", "random_edge_shuffle"} => SwapPreserves(st, st')]_vars
PropFrozen == [][st.frozen => (st'.frozen /\ Struct(st') = Struct(st))]_vars
PropErrNoChange == [][last'.res # "ok" /\ last'.op.name \notin {"add_nodes_from", "add_edges_from", "add_weighted_edges_from", "remove_edges_from", "update", "add_node_to_edge"} => st' = st]_vars

EmitState == Emit => PrintT(ToJson([kind |-> "state", st |-> ToJ(st)]))
ASSUME Emit => PrintT(ToJson([kind |-> "alphabet", ops |-> SX!SetToSeq(Alphabet)]))
=============================================================================
