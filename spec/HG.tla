--------------------------------- MODULE HG ---------------------------------
(***************************************************************************)
(* Undirected hypergraph (xgi.Hypergraph) as an abstract data type.        *)
(*                                                                         *)
(* State record S (implementation shaped: the incidence relation is kept   *)
(* twice, exactly like _node / _edge, so Integrity is a real invariant):   *)
(*   nodes, edges : duplicate-free sequences (dict insertion order)        *)
(*   n2e          : node -> set of edge ids      (H._node)                 *)
(*   e2n          : edge -> set of nodes         (H._edge)                 *)
(*   nattr, eattr : id -> attribute dict         (H._node_attr/_edge_attr) *)
(*   gattr        : attribute dict               (H._net_attr)             *)
(*   uid          : next automatic edge id       (H._edge_uid)             *)
(*   frozen       : BOOLEAN                                                *)
(*                                                                         *)
(* One operator per public mutator.  Every operator is pure and returns a  *)
(* result record [st, res, warn]; Outcomes(S, op, ord) is the SET of       *)
(* results the documentation admits for the call `op` (uniform op record,  *)
(* see OpDefaults) issued in state S.  `ord` is the explicit choice that   *)
(* resolves the only order the documentation leaves open: the order in     *)
(* which previously unseen nodes are created when members are iterated     *)
(* from a python set.  The model checker ranges over all `ord`; the trace  *)
(* specification reads it off the logged post-state.                       *)
(***************************************************************************)
EXTENDS XgiBase

IntLike(e) == e >= 0 /\ e < 100
Bump(u, e) == IF IntLike(e) /\ e >= u THEN e + 1 ELSE u

EmptyHG == [nodes |-> <<>>, edges |-> <<>>, n2e |-> <<>>, e2n |-> <<>>,
            nattr |-> <<>>, eattr |-> <<>>, gattr |-> <<>>, uid |-> 0, frozen |-> FALSE]

NodeSet(S) == Range(S.nodes)
EdgeSet(S) == Range(S.edges)

(* ---- J form <-> state ---------------------------------------------------- *)
FromJ(j) ==
  [nodes |-> j.nodes, edges |-> j.edges,
   n2e   |-> [n \in Range(j.nodes) |-> Range(j.n2e[Idx(j.nodes, n)])],
   e2n   |-> [e \in Range(j.edges) |-> Range(j.e2n[Idx(j.edges, e)])],
   nattr |-> [n \in Range(j.nak) |-> AttrOf(j.nattr[Idx(j.nak, n)])],
   eattr |-> [e \in Range(j.eak) |-> AttrOf(j.eattr[Idx(j.eak, e)])],
   gattr |-> AttrOf(j.gattr), uid |-> j.uid, frozen |-> j.frozen]

ToJ(S) ==
  [nodes |-> S.nodes, edges |-> S.edges,
   n2e   |-> [i \in DOMAIN S.nodes |-> SortSeqOf(S.n2e[S.nodes[i]])],
   e2n   |-> [i \in DOMAIN S.edges |-> SortSeqOf(S.e2n[S.edges[i]])],
   nak   |-> S.nodes, eak |-> S.edges,
   nattr |-> [i \in DOMAIN S.nodes |-> AttrJ(S.nattr[S.nodes[i]])],
   eattr |-> [i \in DOMAIN S.edges |-> AttrJ(S.eattr[S.edges[i]])],
   gattr |-> AttrJ(S.gattr), uid |-> S.uid, frozen |-> S.frozen]

(* ---- invariants ---------------------------------------------------------- *)
\* C01, clause by clause (names are reported by the trace specification)
IntegrityClauses(S) ==
  << <<"nodes.nodup",     NoDup(S.nodes) /\ NoDup(S.edges)>>,
     <<"n2e.domain",      DOMAIN S.n2e = NodeSet(S)>>,
     <<"e2n.domain",      DOMAIN S.e2n = EdgeSet(S)>>,
     <<"nattr.domain",    DOMAIN S.nattr = NodeSet(S)>>,
     <<"eattr.domain",    DOMAIN S.eattr = EdgeSet(S)>>,
     <<"members.are.nodes",     \A e \in DOMAIN S.e2n : S.e2n[e] \subseteq NodeSet(S)>>,
     <<"memberships.are.edges", \A n \in DOMAIN S.n2e : S.n2e[n] \subseteq EdgeSet(S)>>,
     <<"edge->node", \A e \in DOMAIN S.e2n : \A n \in S.e2n[e] :
                        n \in DOMAIN S.n2e /\ e \in S.n2e[n]>>,
     <<"node->edge", \A n \in DOMAIN S.n2e : \A e \in S.n2e[n] :
                        e \in DOMAIN S.e2n /\ n \in S.e2n[e]>>,
     <<"no.None",    None \notin NodeSet(S) /\ None \notin EdgeSet(S)>> >>

FirstFailing(cl) == IF \A i \in DOMAIN cl : cl[i][2] THEN "ok"
                    ELSE cl[CHOOSE i \in DOMAIN cl : ~cl[i][2] /\ \A k \in DOMAIN cl : k < i => cl[k][2]][1]

Integrity(S) == \A i \in DOMAIN IntegrityClauses(S) : IntegrityClauses(S)[i][2]

\* C04: the next automatic id is not in use
UidFresh(S) == \A e \in EdgeSet(S) : IntLike(e) => e < S.uid

\* the structural part of a state (what freeze protects)
Struct(S) == <<S.nodes, S.edges, S.n2e, S.e2n>>

Degree(S, n) == Cardinality(S.n2e[n])
Size(S, e) == Cardinality(S.e2n[e])

(* ---- results ------------------------------------------------------------- *)
Ok(S) == [st |-> S, res |-> "ok", warn |-> 0]
OkW(S, w) == [st |-> S, res |-> "ok", warn |-> w]
LibErr(S) == [st |-> S, res |-> "liberr", warn |-> 0]
OtherErr(S, name) == [st |-> S, res |-> name, warn |-> 0]

\* run Step over items, stop at the first result that is not "ok"; the value
\* is the sequence of intermediate results (first element: nothing applied)
RunBulk(Step(_, _), S, items) ==
  FoldL(LAMBDA acc, it :
          IF acc[Len(acc)].res # "ok" THEN acc
          ELSE LET r == Step(acc[Len(acc)].st, it)
               IN Append(acc, [r EXCEPT !.warn = @ + acc[Len(acc)].warn]),
        <<Ok(S)>>, items)
\* documentation is silent on how much of a raising bulk call is applied:
\* any prefix of complete items is admitted
BulkOutcomes(acc) ==
  LET last == acc[Len(acc)]
  IN IF last.res = "ok" THEN {last}
     ELSE {[st |-> acc[j].st, res |-> last.res, warn |-> acc[j].warn] : j \in 1..(Len(acc) - 1)}
Det(acc) == acc[Len(acc)]      \* for bulk calls that cannot raise

(* ---- primitives shared by the mutators ------------------------------------ *)
AddNodesOrd(S, X, ord) ==
  LET new == SelectSeq(ord, LAMBDA n : n \in X /\ n \notin NodeSet(S))
      NS  == Range(new)
  IN [S EXCEPT !.nodes = @ \o new,
               !.n2e = [n \in (DOMAIN @) \cup NS |-> IF n \in DOMAIN @ THEN @[n] ELSE {}],
               !.nattr = [n \in (DOMAIN @) \cup NS |-> IF n \in DOMAIN @ THEN @[n] ELSE NoAttr]]

\* new edge e with member set M (all valid nodes), attributes a
PutEdge(S, e, M, a, ord) ==
  LET S1 == AddNodesOrd(S, M, ord)
  IN [S1 EXCEPT !.edges = Append(@, e),
                !.e2n = Put(@, e, M),
                !.n2e = [n \in DOMAIN @ |-> IF n \in M THEN @[n] \cup {e} ELSE @[n]],
                !.eattr = Put(@, e, a)]

DelEdges(S, D) ==
  [S EXCEPT !.edges = Without(@, D), !.e2n = Drop(@, D), !.eattr = Drop(@, D),
            !.n2e = [n \in DOMAIN @ |-> @[n] \ D]]

DelNodeRec(S, n) ==
  [S EXCEPT !.nodes = Without(@, {n}), !.n2e = Drop(@, {n}), !.nattr = Drop(@, {n})]

(* ---- nodes --------------------------------------------------------------- *)
AddNode(S, n, a) ==
  IF n = None THEN LibErr(S)
  ELSE LET S1 == AddNodesOrd(S, {n}, <<n>>)
       IN Ok([S1 EXCEPT !.nattr[n] = Upd(@, a)])

\* items: sequence of [id, a]; fmt 1: plain labels (attributes = kw),
\* fmt 2: (label, dict) pairs (dict wins over kw)
AddNodesFrom(S, fmt, items, kw) ==
  BulkOutcomes(RunBulk(LAMBDA T, it : AddNode(T, it.id, IF fmt = 1 THEN kw ELSE Upd(kw, AttrOf(it.a))),
                       S, items))

RemoveNode(S, n, strong, removeEmpty) ==
  IF n \notin NodeSet(S) THEN LibErr(S)
  ELSE LET E  == S.n2e[n]
           S1 == DelNodeRec(S, n)
       IN IF strong THEN Ok(DelEdges(S1, E))
          ELSE LET S2 == [S1 EXCEPT !.e2n = [e \in DOMAIN @ |-> @[e] \ {n}]]
                   dead == IF removeEmpty THEN {e \in E : S2.e2n[e] = {}} ELSE {}
               IN Ok(DelEdges(S2, dead))

RemoveNodesFrom(S, ns, strong, removeEmpty) ==
  Det(RunBulk(LAMBDA T, n : IF n \in NodeSet(T) THEN RemoveNode(T, n, strong, removeEmpty)
                            ELSE OkW(T, 1),
              S, ns))

\* fmt 1: scalar v under key k for every id; fmt 2: dict id -> value under key k
\* (kv: sequence of <<id, value>>); fmt 3: dict id -> dict (kd: sequence of
\* <<id, attrJ>>); fmt 4: neither a mapping nor a name -> library error.
\* Unknown ids are skipped with a warning.
SetAttrs(tbl, ids, fmt, k, v, kv, kd) ==
  CASE fmt = 1 -> [st |-> [i \in DOMAIN tbl |-> Put(tbl[i], k, v)], w |-> 0]
    [] fmt = 2 -> FoldL(LAMBDA acc, p : IF p[1] \in ids
                                           THEN [acc EXCEPT !.st[p[1]] = Put(@, k, p[2])]
                                           ELSE [acc EXCEPT !.w = @ + 1],
                        [st |-> tbl, w |-> 0], kv)
    [] fmt = 3 -> FoldL(LAMBDA acc, p : IF p[1] \in ids
                                           THEN [acc EXCEPT !.st[p[1]] = Upd(@, AttrOf(p[2]))]
                                           ELSE [acc EXCEPT !.w = @ + 1],
                        [st |-> tbl, w |-> 0], kd)

SetNodeAttributes(S, fmt, k, v, kv, kd) ==
  IF fmt = 4 THEN LibErr(S)
  ELSE LET r == SetAttrs(S.nattr, NodeSet(S), fmt, k, v, kv, kd)
       IN OkW([S EXCEPT !.nattr = r.st], r.w)

SetEdgeAttributes(S, fmt, k, v, kv, kd) ==
  IF fmt = 4 THEN LibErr(S)
  ELSE LET r == SetAttrs(S.eattr, EdgeSet(S), fmt, k, v, kv, kd)
       IN OkW([S EXCEPT !.eattr = r.st], r.w)

(* ---- edges --------------------------------------------------------------- *)
\* m: sequence of members (None = -1 possible, repetitions possible)
AddEdge(S, m, id, a, ord) ==
  IF id # None /\ id \in EdgeSet(S) THEN OkW(S, 1)
  ELSE IF None \in Range(m) THEN LibErr(S)
  ELSE LET e == IF id = None THEN S.uid ELSE id
           u == IF id = None THEN S.uid + 1 ELSE Bump(S.uid, id)
       IN Ok([PutEdge(S, e, Range(m), a, ord) EXCEPT !.uid = u])

\* items: sequence of [m, id, a].  fmt 1: members; 2: (members, id);
\* 3: (members, attrs); 4: (members, id, attrs); 5: dict id -> members.
\* Per item attributes win over the keyword attributes; format 5 carries none.
AddEdgesFrom(S, fmt, items, kw, ord) ==
  BulkOutcomes(RunBulk(
    LAMBDA T, it :
      AddEdge(T, it.m,
              IF fmt \in {1, 3} THEN None ELSE it.id,
              CASE fmt \in {1, 2} -> kw
                [] fmt \in {3, 4} -> Upd(kw, AttrOf(it.a))
                [] OTHER -> NoAttr,
              ord),
    S, items))

\* weighted: each item's last entry is the weight stored under key k
AddWeightedEdgesFrom(S, items, k, kw, ord) ==
  BulkOutcomes(RunBulk(
    LAMBDA T, it : AddEdge(T, it.m, None, Upd(kw, Put(NoAttr, k, it.w)), ord), S, items))

RemoveEdge(S, e) ==
  IF e \notin EdgeSet(S) THEN LibErr(S) ELSE Ok(DelEdges(S, {e}))

RemoveEdgesFrom(S, es) ==
  BulkOutcomes(RunBulk(LAMBDA T, e : RemoveEdge(T, e), S, es))

AddNodeToEdge(S, e, n) ==
  IF e = None THEN {LibErr(S)}
  ELSE LET S1 == IF e \in EdgeSet(S) THEN S
                 ELSE [S EXCEPT !.edges = Append(@, e), !.e2n = Put(@, e, {}),
                                !.eattr = Put(@, e, NoAttr), !.uid = Bump(@, e)]
       IN IF n = None THEN {LibErr(S), LibErr(S1)}
          ELSE LET S2 == AddNodesOrd(S1, {n}, <<n>>)
               IN {Ok([S2 EXCEPT !.e2n[e] = @ \cup {n}, !.n2e[n] = @ \cup {e}])}

RemoveNodeFromEdge(S, e, n, removeEmpty) ==
  IF e \notin EdgeSet(S) \/ n \notin NodeSet(S) THEN LibErr(S)
  ELSE IF n \notin S.e2n[e] THEN LibErr(S)
  ELSE LET S1 == [S EXCEPT !.e2n[e] = @ \ {n}, !.n2e[n] = @ \ {e}]
       IN Ok(IF S1.e2n[e] = {} /\ removeEmpty THEN DelEdges(S1, {e}) ELSE S1)

\* degree and size preserving move: n1 leaves e1 for e2, n2 leaves e2 for e1
\* A degenerate request (same node, same edge, or a node already in the target edge)
\* cannot be carried out; it is either rejected or a no-op.
DoubleEdgeSwap(S, n1, n2, e1, e2) ==
  IF n1 \notin NodeSet(S) \/ n2 \notin NodeSet(S) \/ e1 \notin EdgeSet(S) \/ e2 \notin EdgeSet(S)
    THEN {LibErr(S)}
  ELSE IF n1 \notin S.e2n[e1] \/ n2 \notin S.e2n[e2] THEN {LibErr(S)}
  ELSE IF n1 = n2 \/ e1 = e2 \/ n2 \in S.e2n[e1] \/ n1 \in S.e2n[e2] THEN {LibErr(S), Ok(S)}
  ELSE {Ok([S EXCEPT !.e2n[e1] = (@ \ {n1}) \cup {n2},
                    !.e2n[e2] = (@ \ {n2}) \cup {n1},
                    !.n2e[n1] = (@ \ {e1}) \cup {e2},
                    !.n2e[n2] = (@ \ {e2}) \cup {e1}])}

\* shared nodes stay; the rest is redistributed keeping both sizes
ShufflePair(S, e1, e2) ==
  LET A == S.e2n[e1]  B == S.e2n[e2]
      both == A \cap B
      pool == (A \cup B) \ both
      k == Cardinality(A \ both)
  IN IF e1 = e2 THEN {Ok(S)}
     ELSE {Ok([S EXCEPT !.e2n[e1] = X \cup both,
                        !.e2n[e2] = (pool \ X) \cup both,
                        !.n2e = [n \in DOMAIN @ |->
                                   IF n \in pool
                                     THEN IF n \in X THEN (@[n] \ {e2}) \cup {e1}
                                          ELSE (@[n] \ {e1}) \cup {e2}
                                     ELSE @[n]]])
           : X \in {Y \in SUBSET pool : Cardinality(Y) = k}}

RandomEdgeShuffle(S, e1, e2) ==
  IF Len(S.edges) < 2 THEN {OtherErr(S, "ValueError")}
  ELSE IF e1 = None \/ e2 = None
    THEN UNION {ShufflePair(S, a, b) : <<a, b>> \in {p \in EdgeSet(S) \X EdgeSet(S) : p[1] # p[2]}}
  ELSE IF e1 \notin EdgeSet(S) \/ e2 \notin EdgeSet(S) THEN {LibErr(S)}
  ELSE ShufflePair(S, e1, e2)

Clear(S, removeNetAttr) ==
  Ok([S EXCEPT !.nodes = <<>>, !.edges = <<>>, !.n2e = <<>>, !.e2n = <<>>,
               !.nattr = <<>>, !.eattr = <<>>,
               !.gattr = IF removeNetAttr THEN NoAttr ELSE @])

ClearEdges(S) ==
  Ok([S EXCEPT !.edges = <<>>, !.e2n = <<>>, !.eattr = <<>>,
               !.n2e = [n \in DOMAIN @ |-> {}]])

\* update(edges=, nodes=): nodes first, then edges (formats as add_edges_from)
Update(S, ns, fmt, items, ord) ==
  LET r1 == IF ns = <<>> THEN {Ok(S)}
            ELSE AddNodesFrom(S, 1, [i \in DOMAIN ns |-> [id |-> ns[i], a |-> <<>>]], NoAttr)
  IN UNION {IF r.res # "ok" \/ items = <<>> THEN {r}
            ELSE {[o EXCEPT !.warn = @ + r.warn] : o \in AddEdgesFrom(r.st, fmt, items, NoAttr, ord)}
            : r \in r1}

(* ---- duplicate merging ------------------------------------------------------ *)
\* classes of ids with equal member sets, ordered by first occurrence, >= 2 ids
DupClasses(S) ==
  LET firsts == SelectSeq(S.edges, LAMBDA e : \A i \in 1..(Idx(S.edges, e) - 1) :
                                                  S.e2n[S.edges[i]] # S.e2n[e])
      cls(e) == {f \in EdgeSet(S) : S.e2n[f] = S.e2n[e]}
  IN SelectSeq([i \in DOMAIN firsts |-> cls(firsts[i])], LAMBDA C : Cardinality(C) >= 2)

\* tuple ids: 1000 + one bit per merged id (int-like ids 0..19, labels 100..109);
\* a class that already contains a tuple id gets a code outside the bounded universes
IdKind(e) == IF e < 100 THEN 0 ELSE IF e < 1000 THEN 1 ELSE 2
Bit(i) == IF i < 100 THEN i ELSE 20 + (i - 100)
TupleId(C) == IF \E i \in C : i >= 1000 \/ (i >= 20 /\ i < 100) \/ (i >= 110 /\ i < 1000)
                THEN 2000000 + MinOf(C)
                ELSE 1000 + SumSet(LAMBDA i : 2 ^ Bit(i), C)
\* python cannot order ids of different types: sorted()/min() raise TypeError
MixedKinds(C) == \E a, b \in C : IdKind(a) # IdKind(b)

MergedAttrs(S, C, rule, multKey) ==
  LET keys == UNION {DOMAIN S.eattr[e] : e \in C}
      vals(k) == {IF k \in DOMAIN S.eattr[e] THEN S.eattr[e][k] ELSE NoneVal : e \in C}
      base == CASE rule = "first" -> S.eattr[MinOf(C)]
                [] rule = "union" -> [k \in keys |-> SetVal({ElemOf(v) : v \in vals(k)})]
                [] rule = "intersection" ->
                     [k \in keys |-> IF Cardinality(vals(k)) = 1 THEN CHOOSE v \in vals(k) : TRUE
                                     ELSE NoneVal]
  IN IF multKey = 0 THEN base ELSE Put(base, multKey, Scalar(Cardinality(C)))

MergeDuplicateEdges(S, rename, rule, multKey) ==
  LET cl == DupClasses(S) IN
  IF cl = <<>> THEN Ok(S)
  ELSE IF rename \notin {"first", "tuple", "new"} \/ rule \notin {"first", "union", "intersection"}
    THEN LibErr(S)
  ELSE
    LET newId(i) == CASE rename = "first" -> MinOf(cl[i])
                      [] rename = "tuple" -> TupleId(cl[i])
                      [] rename = "new"   -> S.uid + i - 1
        u1 == IF rename = "new" THEN S.uid + Len(cl) ELSE S.uid
        S1 == [DelEdges(S, UNION Range(cl)) EXCEPT !.uid = u1]
        S2 == FoldL(LAMBDA T, i :
                      [PutEdge(T, newId(i), S.e2n[MinOf(cl[i])],
                               MergedAttrs(S, cl[i], rule, multKey), <<>>)
                         EXCEPT !.uid = Bump(@, newId(i))],
                    S1, [i \in DOMAIN cl |-> i])
    IN OkW(S2, IF rule = "union" THEN 1 ELSE 0)

\* a duplicate class mixing id types cannot be ordered by python: the library may
\* answer TypeError (documented limitation of sortable ids), leaving the network as is
\* rename = "tuple" when the tuple id is already carried by another edge: the
\* documentation says nothing; the call is outside the specified domain
MergeUnspecified(S, rename) ==
  rename = "tuple" /\ \E i \in DOMAIN DupClasses(S) :
      TupleId(DupClasses(S)[i]) \in EdgeSet(S) \/ TupleId(DupClasses(S)[i]) >= 2000000
\* "union" / "intersection" collect the attribute values in python sets: list values
\* (unhashable) are outside the documented domain
MergeUnhashable(S, rule) ==
  rule \in {"union", "intersection"} /\ \E i \in DOMAIN DupClasses(S) : \E e \in DupClasses(S)[i] :
      \E k \in DOMAIN S.eattr[e] : S.eattr[e][k][1] = 1
NotSortable(S) == IF \E i \in DOMAIN DupClasses(S) : MixedKinds(DupClasses(S)[i])
                    THEN {OtherErr(S, "TypeError"), OtherErr(S, "ValueError")} ELSE {}
MergeOutcomes(S, rename, rule, multKey) ==
  IF MergeUnspecified(S, rename) \/ MergeUnhashable(S, rule) THEN {} ELSE
  {MergeDuplicateEdges(S, rename, rule, multKey)} \cup NotSortable(S)
  \* invalid rename / merge_rule: documented as an error; whether it is raised when there is nothing
  \* to merge is left open (the library used to return silently)
  \cup (IF rename \notin {"first", "tuple", "new"} \/ rule \notin {"first", "union", "intersection"} THEN {LibErr(S)} ELSE {})

(* ---- components, relabelling, cleanup ----------------------------------------- *)
RECURSIVE Reach(_, _)
Reach(S, X) == LET Y == X \cup UNION {S.e2n[e] : e \in UNION {S.n2e[n] : n \in X}}
               IN IF Y = X THEN X ELSE Reach(S, Y)
Component(S, n) == Reach(S, {n})
Components(S) == {Component(S, n) : n \in NodeSet(S)}
LargestComponents(S) == {C \in Components(S) : \A D \in Components(S) : Cardinality(D) <= Cardinality(C)}

\* weak removal (remove_empty) of every node outside the component C
RestrictTo(S, C) ==
  Det(RunBulk(LAMBDA T, n : RemoveNode(T, n, FALSE, TRUE), S, Without(S.nodes, C))).st

\* any largest component may be kept (the documentation does not say which)
LargestCCInPlace(S) ==
  IF S.nodes = <<>> THEN {OtherErr(S, "ValueError"), LibErr(S), Ok(S)}
  ELSE {Ok(RestrictTo(S, C)) : C \in LargestComponents(S)}

\* i-th node -> i-1, j-th edge -> j-1; old labels recorded under key LabelKey
LabelKey == 9
ConvertLabels(S) ==
  LET nn == Len(S.nodes)  mm == Len(S.edges)
      newN(n) == Idx(S.nodes, n) - 1
      newE(e) == Idx(S.edges, e) - 1
      oldN(i) == S.nodes[i + 1]
      oldE(j) == S.edges[j + 1]
  IN [nodes |-> [i \in 1..nn |-> i - 1], edges |-> [j \in 1..mm |-> j - 1],
      n2e |-> [i \in 0..(nn - 1) |-> {newE(e) : e \in S.n2e[oldN(i)]}],
      e2n |-> [j \in 0..(mm - 1) |-> {newN(n) : n \in S.e2n[oldE(j)]}],
      nattr |-> [i \in 0..(nn - 1) |-> Put(S.nattr[oldN(i)], LabelKey, LabelVal(oldN(i)))],
      eattr |-> [j \in 0..(mm - 1) |-> Put(S.eattr[oldE(j)], LabelKey, LabelVal(oldE(j)))],
      gattr |-> S.gattr, uid |-> mm, frozen |-> S.frozen]

Singletons(S) == SelectSeq(S.edges, LAMBDA e : Cardinality(S.e2n[e]) = 1)
Isolates(S) == SelectSeq(S.nodes, LAMBDA n : S.n2e[n] = {})

\* cleanup(isolates, singletons, multiedges, connected, relabel) in place:
\* the composition of the operators the library calls, in its order
Cleanup(S, isolates, singletons, multiedges, connected, relabel) ==
  LET s1 == IF multiedges THEN S ELSE MergeDuplicateEdges(S, "first", "first", 0).st
      s2 == IF singletons THEN s1 ELSE DelEdges(s1, Range(Singletons(s1)))
      s3 == IF isolates THEN s2
            ELSE Det(RunBulk(LAMBDA T, n : RemoveNode(T, n, FALSE, TRUE), s2, Isolates(s2))).st
      s4s == IF ~connected THEN {s3}
             ELSE IF s3.nodes = <<>> THEN {s3}
             ELSE {RestrictTo(s3, C) : C \in LargestComponents(s3)}
  IN {Ok(IF relabel THEN ConvertLabels(s4) ELSE s4) : s4 \in s4s}
     \cup (IF ~multiedges THEN NotSortable(S) ELSE {})

\* Where merge_duplicate_edges / cleanup leave the merged edges in the edge order is not documented
\* (C05 speaks of the edge *set*; C06's insertion order says nothing about a merge).  The trace
\* specifications therefore compare up to the edge order for these two calls, and - when cleanup
\* relabels - up to which of the new integer ids each surviving edge received, read off the old label
\* that the relabelling records.
PermuteEdges(S, f) ==
  LET inv(e) == CHOOSE x \in EdgeSet(S) : f[x] = e IN
  [S EXCEPT !.edges = [i \in DOMAIN S.edges |-> f[S.edges[i]]],
            !.e2n = [e \in EdgeSet(S) |-> S.e2n[inv(e)]],
            !.eattr = [e \in EdgeSet(S) |-> S.eattr[inv(e)]],
            !.n2e = [n \in DOMAIN S.n2e |-> {f[e] : e \in S.n2e[n]}]]
AlignEdges(st, post, relabel) ==
  IF Range(st.edges) # Range(post.edges) \/ Len(st.edges) # Len(post.edges) \/ DOMAIN post.eattr # Range(post.edges)
    THEN st
  ELSE IF ~relabel THEN [st EXCEPT !.edges = post.edges]
  ELSE LET lab(T, e) == IF LabelKey \in DOMAIN T.eattr[e] THEN T.eattr[e][LabelKey] ELSE <<-1>>
           cand(e) == {x \in EdgeSet(post) : lab(post, x) = lab(st, e)}
       IN IF \E e \in EdgeSet(st) : Cardinality(cand(e)) # 1 THEN st
          ELSE LET f == [e \in EdgeSet(st) |-> CHOOSE x \in cand(e) : TRUE]
               IN IF \E a, b \in EdgeSet(st) : a # b /\ f[a] = f[b] THEN st
                  ELSE [PermuteEdges(st, f) EXCEPT !.edges = post.edges]

(* ---- dispatcher --------------------------------------------------------------- *)
OpDefaults ==
  [name |-> "", n |-> None, n2 |-> None, e |-> None, e2 |-> None, m |-> <<>>, id |-> None,
   a |-> <<>>, b1 |-> FALSE, b2 |-> FALSE, b3 |-> FALSE, b4 |-> FALSE, b5 |-> FALSE,
   items |-> <<>>, fmt |-> 0, k |-> 0, v |-> <<2>>, s1 |-> "", s2 |-> "",
   ns |-> <<>>, kv |-> <<>>, kd |-> <<>>]

StructuralOps ==
  {"add_node", "add_nodes_from", "remove_node", "remove_nodes_from", "add_edge",
   "add_edges_from", "add_weighted_edges_from", "remove_edge", "remove_edges_from",
   "add_node_to_edge", "remove_node_from_edge", "double_edge_swap", "random_edge_shuffle",
   "clear", "clear_edges", "update", "merge_duplicate_edges", "cleanup",
   "convert_labels_to_integers", "largest_connected_hypergraph"}

Unfrozen(S, op, ord) ==
  CASE op.name = "add_node" -> {AddNode(S, op.n, AttrOf(op.a))}
    [] op.name = "add_nodes_from" -> AddNodesFrom(S, op.fmt, op.items, AttrOf(op.a))
    [] op.name = "remove_node" -> {RemoveNode(S, op.n, op.b1, op.b2)}
    [] op.name = "remove_nodes_from" -> {RemoveNodesFrom(S, op.ns, op.b1, op.b2)}
    [] op.name = "set_node_attributes" -> {SetNodeAttributes(S, op.fmt, op.k, op.v, op.kv, op.kd)}
    [] op.name = "set_edge_attributes" -> {SetEdgeAttributes(S, op.fmt, op.k, op.v, op.kv, op.kd)}
    [] op.name = "add_edge" -> {AddEdge(S, op.m, op.id, AttrOf(op.a), ord)} \cup
          \* a present explicit id and a None member may be detected in either order
          (IF op.id # None /\ op.id \in EdgeSet(S) /\ None \in Range(op.m) THEN {LibErr(S)} ELSE {})
    [] op.name = "add_edges_from" -> AddEdgesFrom(S, op.fmt, op.items, AttrOf(op.a), ord)
    [] op.name = "add_weighted_edges_from" -> AddWeightedEdgesFrom(S, op.items, op.k, AttrOf(op.a), ord)
    [] op.name = "remove_edge" -> {RemoveEdge(S, op.e)}
    [] op.name = "remove_edges_from" -> RemoveEdgesFrom(S, op.ns)
    [] op.name = "add_node_to_edge" -> AddNodeToEdge(S, op.e, op.n)
    [] op.name = "remove_node_from_edge" -> {RemoveNodeFromEdge(S, op.e, op.n, op.b1)}
    [] op.name = "double_edge_swap" -> DoubleEdgeSwap(S, op.n, op.n2, op.e, op.e2)
    [] op.name = "random_edge_shuffle" -> RandomEdgeShuffle(S, op.e, op.e2)
    [] op.name = "clear" -> {Clear(S, op.b1)}
    [] op.name = "clear_edges" -> {ClearEdges(S)}
    [] op.name = "update" -> Update(S, op.ns, op.fmt, op.items, ord)
    [] op.name = "merge_duplicate_edges" -> MergeOutcomes(S, op.s1, op.s2, op.k)
    [] op.name = "cleanup" -> Cleanup(S, op.b1, op.b2, op.b3, op.b4, op.b5)
    [] op.name = "convert_labels_to_integers" -> {Ok(ConvertLabels(S))}
    [] op.name = "largest_connected_hypergraph" -> LargestCCInPlace(S)
    [] op.name = "set_net_attr" -> {Ok([S EXCEPT !.gattr = Put(@, op.k, op.v)])}
    [] op.name = "freeze" -> {Ok([S EXCEPT !.frozen = TRUE])}
    \* the history continues on a copy / constructor copy / pickle of the network while the original is edited
    \* behind its back: the copy is the network that was copied
    [] op.name = "fork" -> {Ok(IF op.s1 = "constructor" THEN [S EXCEPT !.uid = 0] ELSE S)}  \* a rebuilt network starts from the ids it holds

\* C18: on a frozen network a structural call is rejected and changes nothing;
\* a call that would not change the structure anyway may also just return.
Outcomes(S, op, ord) ==
  IF S.frozen /\ op.name \in StructuralOps
    THEN {LibErr(S)} \cup {o \in Unfrozen(S, op, ord) : Struct(o.st) = Struct(S) /\ o.res = "ok"}
    ELSE Unfrozen(S, op, ord)

\* calls whose effect the documentation does not determine (never generated by drivers,
\* skipped by the trace specification)
Unspecified(S, op) ==
  \/ op.name = "merge_duplicate_edges" /\ (MergeUnspecified(S, op.s1) \/ MergeUnhashable(S, op.s2))
  \/ op.name = "cleanup" /\ ~op.b3 /\ MergeUnspecified(S, "first")
  \* attribute entries of the bulk formats that are not dicts (key/value pairs, None): what happens is not
  \* documented; only the invariants of every reachable state are required afterwards
  \/ op.name = "add_edges_from" /\ (op.b2 \/ op.b4)
  \* the same for the (node, attributes) items of add_nodes_from
  \/ op.name = "add_nodes_from" /\ (op.b2 \/ op.b4)

(* ---- action properties (evaluated on spec transitions and on logged steps) ---- *)
AddOps == {"add_edge", "add_edges_from", "add_weighted_edges_from", "add_node_to_edge", "update"}

\* C04: adding never alters, replaces or removes an existing edge
AddsPreserve(S, T) ==
  /\ \A e \in EdgeSet(S) : e \in EdgeSet(T) /\ T.eattr[e] = S.eattr[e]
  /\ Only(T.edges, EdgeSet(S)) = S.edges

AddsPreserveMembers(S, T) == \A e \in EdgeSet(S) : T.e2n[e] = S.e2n[e]

\* C05: double_edge_swap / random_edge_shuffle keep degrees, sizes, ids, attributes
SwapPreserves(S, T) ==
  /\ T.nodes = S.nodes /\ T.edges = S.edges
  /\ T.nattr = S.nattr /\ T.eattr = S.eattr /\ T.gattr = S.gattr /\ T.uid = S.uid
  /\ \A n \in NodeSet(S) : Cardinality(T.n2e[n]) = Cardinality(S.n2e[n])
  /\ \A e \in EdgeSet(S) : Cardinality(T.e2n[e]) = Cardinality(S.e2n[e])
=============================================================================
