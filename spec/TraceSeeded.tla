------------------------------ MODULE TraceSeeded ------------------------------
(* C17 records: [rid, fn, acts] with acts the executed schedule; each "call"      *)
(* action carries the digest (31-bit integer) of what the function returned.      *)
(* Memo rule: equal seeds => equal digests, whatever happened in between.         *)
EXTENDS Naturals, Sequences, TLC, Json, IOUtils
Recs == ndJsonDeserialize(IOEnv.TRACE_FILE)
VARIABLE i

Calls(h) == {k \in DOMAIN h : h[k].a = "call"}
MemoOK(h) == \A a, b \in Calls(h) : h[a].s = h[b].s => h[a].digest = h[b].digest
NoFailure(h) == \A a \in Calls(h) : h[a].digest >= 0

\* strict = FALSE: the seed is of a type the function may legitimately refuse (a numpy integer where
\* python's random.seed accepts only int); refusing it every time is a consistent answer
Verdict(r) == IF r.strict /\ ~NoFailure(r.acts) THEN <<"C17:" \o r.fn \o ".raised">>
              ELSE IF MemoOK(r.acts) THEN <<>> ELSE <<"C17:" \o r.fn>>

Init == i = 0
Next == i < Len(Recs) /\ i' = i + 1
Spec == Init /\ [][Next]_i
Report == i = 0 \/ LET v == Verdict(Recs[i])
                   IN v = <<>> \/ PrintT(ToJson([rid |-> Recs[i].rid, v |-> v]))
Done == PrintT(ToJson([consumed |-> TLCGet("stats").diameter - 1, total |-> Len(Recs)]))
=============================================================================
