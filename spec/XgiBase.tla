------------------------------ MODULE XgiBase ------------------------------
(***************************************************************************)
(* Shared vocabulary of the xgi specification family: ordered sets as      *)
(* duplicate-free sequences, python-dict like functions, attribute         *)
(* dictionaries in their JSON ("J") form, folds and small combinatorics.   *)
(*                                                                         *)
(* Encodings (forced by TLC, which never compares values of two types):    *)
(*   node / edge id   integer; None is -1                                  *)
(*   edge id ranges   0..99 integer-like labels (count towards the id      *)
(*                    counter), 100..199 non-numeric labels, >= 1000 the   *)
(*                    tuple ids made by merge_duplicate_edges("tuple")     *)
(*   attribute value  integer tuple <<tag, ...>>: <<0,v>> scalar,          *)
(*                    <<1,...>> list, <<2>> None, <<3,...>> sorted set     *)
(*                    (None inside a set is -1), <<4,id>> a recorded label *)
(*   attribute dict   function  key (small int) -> value; its J form is    *)
(*                    the key-sorted sequence of <<key, value>> pairs      *)
(***************************************************************************)
EXTENDS Integers, Sequences, FiniteSets, TLC

None == -1

Range(s) == {s[i] : i \in DOMAIN s}
Idx(s, x) == CHOOSE i \in DOMAIN s : s[i] = x
NoDup(s) == \A i, j \in DOMAIN s : s[i] = s[j] => i = j
Drop(f, X) == [x \in (DOMAIN f) \ X |-> f[x]]
Put(f, x, v) == [y \in (DOMAIN f) \cup {x} |-> IF y = x THEN v ELSE f[y]]
\* dict.update: entries of b win
Upd(a, b) == [k \in (DOMAIN a) \cup (DOMAIN b) |-> IF k \in DOMAIN b THEN b[k] ELSE a[k]]
Without(s, X) == SelectSeq(s, LAMBDA x : x \notin X)
Only(s, X) == SelectSeq(s, LAMBDA x : x \in X)
NoAttr == <<>>

MinOf(S) == CHOOSE x \in S : \A y \in S : x <= y
MaxOf(S) == CHOOSE x \in S : \A y \in S : x >= y

RECURSIVE SortSeqOf(_)
SortSeqOf(S) == IF S = {} THEN <<>>
                ELSE LET m == MinOf(S) IN <<m>> \o SortSeqOf(S \ {m})

RECURSIVE SumSeq(_)
SumSeq(s) == IF s = <<>> THEN 0 ELSE Head(s) + SumSeq(Tail(s))

RECURSIVE SumSet(_, _)
SumSet(f(_), S) == IF S = {} THEN 0
                   ELSE LET x == CHOOSE x \in S : TRUE IN f(x) + SumSet(f, S \ {x})

Perms(S) == {s \in [1..Cardinality(S) -> S] : \A i, j \in 1..Cardinality(S) : i # j => s[i] # s[j]}

\* left fold over a sequence
RECURSIVE FoldL(_, _, _)
FoldL(f(_, _), acc, s) == IF s = <<>> THEN acc ELSE FoldL(f, f(acc, Head(s)), Tail(s))

\* sequence of x in s (in order) without repetitions: first occurrences
RECURSIVE Uniq(_)
Uniq(s) == IF s = <<>> THEN <<>>
           ELSE LET r == Uniq(SubSeq(s, 1, Len(s) - 1))
                IN IF s[Len(s)] \in Range(r) THEN r ELSE Append(r, s[Len(s)])

(* ---- attribute dictionaries ------------------------------------------- *)
AttrOf(j) == [k \in {j[i][1] : i \in DOMAIN j} |->
                 j[CHOOSE i \in DOMAIN j : j[i][1] = k /\ \A i2 \in DOMAIN j : j[i2][1] = k => i2 <= i][2]]
AttrJ(f) == LET ks == SortSeqOf(DOMAIN f) IN [i \in DOMAIN ks |-> <<ks[i], f[ks[i]]>>]

Scalar(v) == <<0, v>>
NoneVal == <<2>>
\* element code of a value inside a merged set (scalars only; None -> -1)
ElemOf(v) == IF v = NoneVal THEN -1 ELSE v[2]
SetVal(S) == <<3>> \o SortSeqOf(S)
LabelVal(i) == <<4, i>>

(* ---- exact rationals <<num, den>>, den > 0 ------------------------------ *)
RECURSIVE Gcd(_, _)
Gcd(a, b) == IF b = 0 THEN a ELSE Gcd(b, a % b)
Abs(x) == IF x < 0 THEN -x ELSE x
Rat(n, d) == IF n = 0 THEN <<0, 1>>
             ELSE LET g == Gcd(Abs(n), Abs(d))
                      s == IF d < 0 THEN -1 ELSE 1
                  IN <<s * (n \div g), s * (d \div g)>>
RAdd(a, b) == Rat(a[1] * b[2] + b[1] * a[2], a[2] * b[2])
RMul(a, b) == Rat(a[1] * b[1], a[2] * b[2])
RDiv(a, b) == Rat(a[1] * b[2], a[2] * b[1])
REq(a, b) == a[1] * b[2] = b[1] * a[2]
=============================================================================
