----------------------------- MODULE TraceFrozen -----------------------------
(***************************************************************************)
(* C18, surface part: every public method / in-place library function is    *)
(* probed (arguments found by introspection) on an unfrozen twin and on the  *)
(* frozen network.  Record [rid, kind, name, twinChanged, res, pre, post]:   *)
(*  probe : if the twin's structure changed, the frozen call must raise the  *)
(*          library error; in every case the frozen network is unchanged and *)
(*          still reports is_frozen                                          *)
(*  copy  : copy of a frozen network: equal, not frozen (post), and editable *)
(*          (twinChanged = an add_node on the copy succeeded and shows)      *)
(*  sub   : subhypergraph(...) result must report is_frozen                  *)
(***************************************************************************)
EXTENDS Nets, Json, IOUtils
Recs == ndJsonDeserialize(IOEnv.TRACE_FILE)
VARIABLE i

Clauses(r) ==
  << <<"C18:FrozenImmutable", r.kind # "probe" \/ r.post = r.pre>>,
     <<"C18:NotRejected", r.kind # "probe" \/ ~r.twinChanged \/ r.res = "liberr">>,
     \* "plain": a network that was never frozen (or the copy of a frozen one) reports so and is editable
     <<"C18:is_frozen", r.kind = "copy" \/ (r.kind = "plain" /\ ~r.post.frozen /\ ~r.pre.frozen /\ r.res = "ok")
                        \/ (r.kind \notin {"copy", "plain"} /\ r.post.frozen)>>,
     <<"C18:CopyOfFrozen", r.kind # "copy" \/ (CopyEqual(r.pre, r.post) /\ r.twinChanged)>> >>

Verdict(r) ==
  LET cl == Clauses(r)
      bad == SelectSeq([k \in DOMAIN cl |-> k], LAMBDA k : ~cl[k][2])
  IN [k \in DOMAIN bad |-> cl[bad[k]][1]]

Init == i = 0
Next == i < Len(Recs) /\ i' = i + 1
Spec == Init /\ [][Next]_i
Report == i = 0 \/ LET v == Verdict(Recs[i])
                   IN v = <<>> \/ PrintT(ToJson([rid |-> Recs[i].rid, v |-> v]))
Done == PrintT(ToJson([consumed |-> TLCGet("stats").diameter - 1, total |-> Len(Recs)]))
=============================================================================
