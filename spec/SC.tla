--------------------------------- MODULE SC ---------------------------------
(***************************************************************************)
(* Simplicial complex (xgi.SimplicialComplex) on top of the HG state        *)
(* record and primitives.  The invariant set of C03 is                      *)
(*     Closed /\ NoDupSimplex /\ NoEmptySimplex /\ Integrity.               *)
(* Additional explicit choice: `ford`, the order in which missing faces     *)
(* receive their automatic ids (the library iterates a python set of        *)
(* faces); it is a sequence of node sets.  The model checker ranges over    *)
(* some orders, the trace specification reads the order off the logged      *)
(* post-state.                                                              *)
(***************************************************************************)
EXTENDS HG

EmptySC == EmptyHG

SimplexSets(S) == {S.e2n[e] : e \in DOMAIN S.e2n}
HasSimplex(S, X) == X \in SimplexSets(S)
SubsOf(X, lo, hi) == {Y \in SUBSET X : Cardinality(Y) >= lo /\ Cardinality(Y) <= hi}

Closed(S) == \A e \in DOMAIN S.e2n : \A Y \in SubsOf(S.e2n[e], 2, Cardinality(S.e2n[e])) : HasSimplex(S, Y)
NoDupSimplex(S) == \A e, f \in DOMAIN S.e2n : S.e2n[e] = S.e2n[f] => e = f
NoEmptySimplex(S) == \A e \in DOMAIN S.e2n : S.e2n[e] # {}
SCClauses(S) == << <<"Closed", Closed(S)>>, <<"NoDupSimplex", NoDupSimplex(S)>>,
                   <<"NoEmptySimplex", NoEmptySimplex(S)>> >>
SCInv(S) == Closed(S) /\ NoDupSimplex(S) /\ NoEmptySimplex(S)

\* faces of F that are missing get automatic ids, in the order given by ford
AddFaces(S, F, ford, ord) ==
  LET todo == Uniq(SelectSeq(ford, LAMBDA X : X \in F /\ ~HasSimplex(S, X)))
  IN FoldL(LAMBDA T, X : [PutEdge(T, T.uid, X, NoAttr, ord) EXCEPT !.uid = T.uid + 1], S, todo)

\* one simplex with its id and attributes, nodes created in `ord` order
PutSimplex(S, e, M, a, ord) == [PutEdge(S, e, M, a, ord) EXCEPT !.uid = Bump(@, e)]

(* ---- add_simplex ---------------------------------------------------------------- *)
AddSimplex(S, m, castable, id, a, ord, ford) ==
  LET M == Range(m) IN
  IF ~castable THEN {LibErr(S)}
  ELSE IF M = {} \/ HasSimplex(S, M) THEN {Ok(S)}
  ELSE IF id # None /\ id \in EdgeSet(S) THEN {OkW(S, 1)} \cup (IF None \in M THEN {LibErr(S)} ELSE {})
  ELSE IF None \in M THEN {LibErr(S)}
  ELSE LET e  == IF id = None THEN S.uid ELSE id
           S0 == IF id = None THEN [S EXCEPT !.uid = @ + 1] ELSE S
           S1 == PutSimplex(S0, e, M, a, ord)
       IN {Ok(AddFaces(S1, SubsOf(M, 2, Cardinality(M) - 1), ford, ord))}

(* ---- add_simplices_from ------------------------------------------------------------ *)
\* fold state: [st, res, warn, q] with q the set of queued faces.  maxOrder = None: no cap.
\* burn: whether a simplex that max_order cuts down to its faces uses up an automatic id (the library does;
\* only the freshness of the ids that are handed out is promised)
SimplexStep(T, it, fmt, maxOrder, kw, ord, burn) ==
  LET M  == Range(it.m)
      S  == T.st
      k  == Cardinality(M)
      auto == fmt \in {1, 3}
      a  == CASE fmt \in {1, 2} -> kw [] fmt \in {3, 4} -> Upd(kw, AttrOf(it.a)) [] OTHER -> NoAttr
  IN IF M = {} \/ HasSimplex(S, M) THEN T
     \* format 5 tests the explicit id before anything else
     ELSE IF fmt = 5 /\ it.id \in EdgeSet(S) THEN [T EXCEPT !.warn = @ + 1]
     ELSE IF None \in M THEN [T EXCEPT !.res = "liberr"]
     ELSE
       LET S0 == IF auto THEN [S EXCEPT !.uid = @ + 1] ELSE S
           e  == IF auto THEN S.uid ELSE it.id
       IN IF maxOrder # None /\ k > maxOrder + 1
            THEN [T EXCEPT !.st = IF burn THEN S0 ELSE S, !.q = @ \cup SubsOf(M, 2, maxOrder + 1)]
          ELSE IF ~auto /\ e \in EdgeSet(S) THEN [T EXCEPT !.warn = @ + 1]
          ELSE [T EXCEPT !.st = PutSimplex(S0, e, M, a, ord), !.q = @ \cup SubsOf(M, 2, k - 1)]

\* a raising call leaves a prefix of complete items (with their faces) applied
AddSimplicesFromB(S, fmt, items, maxOrder, kw, ord, ford, burn) ==
  LET run == FoldL(LAMBDA acc, it :
                     IF acc[Len(acc)].res # "ok" THEN acc
                     ELSE Append(acc, SimplexStep(acc[Len(acc)], it, fmt, maxOrder, kw, ord, burn)),
                   << [st |-> S, res |-> "ok", warn |-> 0, q |-> {}] >>, items)
      fin(T) == [st |-> AddFaces(T.st, T.q, ford, ord), res |-> "ok", warn |-> T.warn]
      last == run[Len(run)]
  IN IF last.res = "ok" THEN {fin(last)}
     ELSE {[fin(run[j]) EXCEPT !.res = last.res] : j \in 1..(Len(run) - 1)}
AddSimplicesFrom(S, fmt, items, maxOrder, kw, ord, ford) ==
  AddSimplicesFromB(S, fmt, items, maxOrder, kw, ord, ford, TRUE)
    \cup (IF maxOrder = None THEN {} ELSE AddSimplicesFromB(S, fmt, items, maxOrder, kw, ord, ford, FALSE))

\* None members in a bulk call: invalid members are outside C03's quantifier.  Only the
\* clean case is specified (first item, automatic id, not truncated): the call is rejected
\* and nothing changes.  Elsewhere the library raises with earlier items applied but their
\* faces missing, or queues faces that contain None.
BulkNoneUnspecified(fmt, items, maxOrder) ==
  \E i \in DOMAIN items : None \in Range(items[i].m) /\
     ~(i = 1 /\ fmt \in {1, 3} /\ (maxOrder = None \/ Cardinality(Range(items[i].m)) <= maxOrder + 1))

(* ---- removal --------------------------------------------------------------------------- *)
SupIds(S, e) == {f \in EdgeSet(S) : S.e2n[e] \subseteq S.e2n[f] /\ S.e2n[e] # S.e2n[f]}
RemoveSimplexId(S, e) ==
  IF e \notin EdgeSet(S) THEN LibErr(S) ELSE Ok(DelEdges(S, SupIds(S, e) \cup {e}))

\* ids present when the call starts and removed meanwhile as superfaces are skipped
RemoveSimplexIdsFrom(S, es) ==
  BulkOutcomes(RunBulk(LAMBDA T, e : IF e \in EdgeSet(S) /\ e \notin EdgeSet(T) THEN Ok(T)
                                     ELSE RemoveSimplexId(T, e), S, es))

SCRemoveNode(S, n) == RemoveNode(S, n, TRUE, TRUE)
SCRemoveNodesFrom(S, ns) ==
  Det(RunBulk(LAMBDA T, n : IF n \in NodeSet(T) THEN SCRemoveNode(T, n) ELSE OkW(T, 1), S, ns))

\* close(): add every missing subface of every simplex
Close(S, ford) == Ok(AddFaces(S, UNION {SubsOf(S.e2n[e], 2, Cardinality(S.e2n[e]) - 1) : e \in DOMAIN S.e2n}, ford, <<>>))

SCRestrictTo(S, C) == Det(RunBulk(LAMBDA T, n : SCRemoveNode(T, n), S, Without(S.nodes, C))).st

SCCleanup(S, isolates, connected, relabel) ==
  LET s1 == IF isolates THEN S
            ELSE Det(RunBulk(LAMBDA T, n : SCRemoveNode(T, n), S, Isolates(S))).st
      s2s == IF ~connected \/ s1.nodes = <<>> THEN {s1}
             ELSE {SCRestrictTo(s1, C) : C \in LargestComponents(s1)}
  IN {Ok(IF relabel THEN ConvertLabels(s2) ELSE s2) : s2 \in s2s}

(* ---- dispatcher -------------------------------------------------------------------------- *)
SCStructuralOps ==
  {"add_node", "add_nodes_from", "remove_node", "remove_nodes_from", "add_simplex", "add_simplices_from",
   "add_weighted_simplices_from", "add_weighted_edges_from",
   "remove_simplex_id", "remove_simplex_ids_from", "close", "cleanup", "clear", "add_edge",
   "add_edges_from", "remove_edge", "remove_edges_from", "convert_labels_to_integers",
   "largest_connected_hypergraph"}

\* op fields: m members, b3 = members not castable, id, a, fmt/items, k = max_order (None = -1)
Deprecated(outs) == {[o EXCEPT !.warn = IF o.res = "ok" THEN @ + 1 ELSE @] : o \in outs}

SCUnfrozen(S, op, ord, ford) ==
  CASE op.name = "add_node" -> {AddNode(S, op.n, AttrOf(op.a))}
    [] op.name = "add_nodes_from" -> AddNodesFrom(S, op.fmt, op.items, AttrOf(op.a))
    [] op.name = "set_node_attributes" -> {SetNodeAttributes(S, op.fmt, op.k, op.v, op.kv, op.kd)}
    [] op.name = "set_edge_attributes" -> {SetEdgeAttributes(S, op.fmt, op.k, op.v, op.kv, op.kd)}
    [] op.name = "remove_node" -> {SCRemoveNode(S, op.n)}
    [] op.name = "remove_nodes_from" -> {SCRemoveNodesFrom(S, op.ns)}
    [] op.name = "add_simplex" -> AddSimplex(S, op.m, ~op.b3, op.id, AttrOf(op.a), ord, ford)
    [] op.name = "add_simplices_from" ->
         AddSimplicesFrom(S, op.fmt, op.items, op.n2, AttrOf(op.a), ord, ford)
    \* weighted: format 3 with the weight stored under key k
    [] op.name \in {"add_weighted_simplices_from", "add_weighted_edges_from"} ->
         LET its == [q \in DOMAIN op.items |-> [op.items[q] EXCEPT !.a = << <<op.k, op.items[q].w>> >>]]
             outs == AddSimplicesFrom(S, 3, its, op.n2, AttrOf(op.a), ord, ford)
         IN IF op.name = "add_weighted_edges_from" THEN Deprecated(outs) ELSE outs
    [] op.name = "remove_simplex_id" -> {RemoveSimplexId(S, op.e)}
    [] op.name = "remove_simplex_ids_from" -> RemoveSimplexIdsFrom(S, op.ns)
    [] op.name = "close" -> {Close(S, ford)}
    [] op.name = "cleanup" -> SCCleanup(S, op.b1, op.b4, op.b5)
    [] op.name = "clear" -> {Clear(S, op.b1)}
    [] op.name = "convert_labels_to_integers" -> {Ok(ConvertLabels(S))}
    [] op.name = "largest_connected_hypergraph" ->
         IF S.nodes = <<>> THEN {Ok(S)} ELSE {Ok(SCRestrictTo(S, C)) : C \in LargestComponents(S)}
    [] op.name = "add_node_to_edge" -> {LibErr(S)}
    \* deprecated aliases: a warning, then the simplex call (explicit id / max_order dropped)
    [] op.name = "add_edge" -> Deprecated(AddSimplex(S, op.m, ~op.b3, None, AttrOf(op.a), ord, ford))
    [] op.name = "add_edges_from" -> Deprecated(AddSimplicesFrom(S, op.fmt, op.items, None, AttrOf(op.a), ord, ford))
    [] op.name = "remove_edge" -> Deprecated({RemoveSimplexId(S, op.e)})
    [] op.name = "remove_edges_from" -> Deprecated(RemoveSimplexIdsFrom(S, op.ns))
    [] op.name = "set_net_attr" -> {Ok([S EXCEPT !.gattr = Put(@, op.k, op.v)])}
    [] op.name = "freeze" -> {Ok([S EXCEPT !.frozen = TRUE])}
    \* the history continues on a copy / constructor copy / pickle while the original is edited behind its back
    [] op.name = "fork" -> {Ok(IF op.s1 = "constructor" THEN [S EXCEPT !.uid = 0] ELSE S)}  \* a rebuilt network starts from the ids it holds

SCOutcomes(S, op, ord, ford) ==
  IF S.frozen /\ op.name \in SCStructuralOps
    THEN {LibErr(S)} \cup {o \in SCUnfrozen(S, op, ord, ford) : Struct(o.st) = Struct(S) /\ o.res = "ok"}
    ELSE SCUnfrozen(S, op, ord, ford)

SCUnspecified(S, op) ==
  \/ op.name = "add_nodes_from" /\ (op.b2 \/ op.b4)
  \/ op.name \in {"add_simplices_from", "add_edges_from", "add_weighted_simplices_from", "add_weighted_edges_from"} /\
       BulkNoneUnspecified(IF op.name \in {"add_weighted_simplices_from", "add_weighted_edges_from"} THEN 3 ELSE op.fmt,
                           op.items, IF op.name = "add_edges_from" THEN None ELSE op.n2)

(* ---- action properties ---------------------------------------------------------------------- *)
\* remove_simplex_id(i) removes exactly i and the simplices that strictly contain it
RemoveExact(S, e, T) ==
  e \in EdgeSet(S) => EdgeSet(T) = EdgeSet(S) \ (SupIds(S, e) \cup {e})
                      /\ \A f \in EdgeSet(T) : T.e2n[f] = S.e2n[f]
\* remove_simplex_ids_from(ids) that returns: exactly the named simplices and the simplices containing one of them
RemoveExactBulk(S, ids, T) ==
  LET gone == UNION {SupIds(S, e) \cup {e} : e \in ids \cap EdgeSet(S)}
  IN EdgeSet(T) = EdgeSet(S) \ gone /\ \A f \in EdgeSet(T) : T.e2n[f] = S.e2n[f]
\* simplices created by an add with max_order = k have at most k+1 nodes
MaxOrderRespected(S, k, T) ==
  k # None => \A e \in EdgeSet(T) \ EdgeSet(S) : Cardinality(T.e2n[e]) <= k + 1
SCAddOps == {"add_simplex", "add_simplices_from", "add_edge", "add_edges_from", "close",
             "add_weighted_simplices_from", "add_weighted_edges_from"}
=============================================================================
