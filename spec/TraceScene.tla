------------------------------ MODULE TraceScene ------------------------------
(* C20 records: [rid, kind, fn, st, mo, sc, res, keys, ok, ekeys, eok, hasedges,     *)
(* npos, epos, markers, lines, polys]                                                *)
EXTENDS Scene, Json, IOUtils
Recs == ndJsonDeserialize(IOEnv.TRACE_FILE)
VARIABLE i

Verdict(r) ==
  LET S == FromJ(r.st) IN
  IF r.res # "ok" THEN <<"C20:" \o r.fn \o ".raised." \o r.res>>
  ELSE IF r.kind = "layout" THEN
         (IF LayoutOK(S, r.keys, r.ok) /\ (~r.hasedges \/ EdgeLayoutOK(S, r.ekeys, r.eok)) THEN <<>>
          ELSE <<"C20:" \o r.fn \o ".positions">>)
  ELSE IF r.kind = "bary" THEN
         (IF BarycentersOK(S, r.npos, r.epos) THEN <<>> ELSE <<"C20:edge_positions_from_barycenters">>)
  ELSE IF r.sc THEN
         (IF SimplicialScene(S, r.mo, r.lines, r.polys) /\ (r.markers = <<>> \/ r.markers = S.nodes) THEN <<>>
          ELSE <<"C20:" \o r.fn \o ".scene">>)
  ELSE (IF HyperScene(S, r.mo, IF r.markers = <<-5>> THEN S.nodes ELSE r.markers, r.lines, r.polys) THEN <<>>
        ELSE <<"C20:" \o r.fn \o ".scene">>)

Init == i = 0
Next == i < Len(Recs) /\ i' = i + 1
Spec == Init /\ [][Next]_i
Report == i = 0 \/ LET v == Verdict(Recs[i])
                   IN v = <<>> \/ PrintT(ToJson([rid |-> Recs[i].rid, v |-> v]))
Done == PrintT(ToJson([consumed |-> TLCGet("stats").diameter - 1, total |-> Len(Recs)]))
=============================================================================
