--------------------------------- MODULE Nets --------------------------------
(***************************************************************************)
(* Several networks side by side (C07, C08): slots hold projected network   *)
(* states in J form (any of the three classes) or Null.  The relations      *)
(* below are class agnostic: they compare whole J records.                  *)
(*   Frame      an action on slot k leaves every other slot unchanged        *)
(*   CopyEqual  copy(): equal network, same id counter, not frozen           *)
(*   PickleEqual pickle round trip: equal network, same id counter           *)
(*   CtorEqual  Class(net) on its own class: equal content, fresh counter    *)
(*   QueryFrame a read-only call leaves its argument exactly as it was       *)
(***************************************************************************)
EXTENDS XgiBase

Null == [null |-> TRUE]
IsNull(x) == "null" \in DOMAIN x

IntLikeJ(e) == e >= 0 /\ e < 100
UidFreshJ(j) == \A k \in DOMAIN j.edges : IntLikeJ(j.edges[k]) => j.edges[k] < j.uid
Core(j) == [j EXCEPT !.uid = 0, !.frozen = FALSE]

Frame(pre, post, target) ==
  \A k \in DOMAIN pre : k # target => post[k] = pre[k]
CopyEqual(src, dst) == dst = [src EXCEPT !.frozen = FALSE]
PickleEqual(src, dst) == Core(dst) = Core(src) /\ dst.uid = src.uid
CtorEqual(src, dst) == Core(dst) = Core(src) /\ UidFreshJ(dst)
\* adding to a network keeps every edge it had (ids, order, attributes; members too
\* unless the call adds a node to an existing edge)
KeepsEdgesJ(pre, post) ==
  /\ SelectSeq(post.edges, LAMBDA e : e \in Range(pre.edges)) = pre.edges
  /\ \A k \in DOMAIN pre.edges : \E m \in DOMAIN post.eak :
        post.eak[m] = pre.edges[k] /\ post.eattr[m] = pre.eattr[Idx(pre.eak, pre.edges[k])]
=============================================================================
