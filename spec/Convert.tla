-------------------------------- MODULE Convert ------------------------------
(***************************************************************************)
(* C10 / C11: what each representation must preserve.  Both networks are     *)
(* HG records over the SAME abstract labels (where a representation carries  *)
(* no labels, the harness maps positions back through the index maps the     *)
(* library returned, so that "same position" becomes "same label").          *)
(***************************************************************************)
EXTENDS SC

Inc(S) == {<<n, e>> : n \in NodeSet(S), e \in EdgeSet(S)} \cap {p \in NodeSet(S) \X EdgeSet(S) : p[1] \in S.e2n[p[2]]}
NonIsolated(S) == {n \in NodeSet(S) : S.n2e[n] # {}}
NonEmptyEdges(S) == {e \in EdgeSet(S) : S.e2n[e] # {}}
MemberSeq(S) == [k \in DOMAIN S.edges |-> S.e2n[S.edges[k]]]

\* incidences only (edge list with ids, bipartite edge list, labelled incidence matrix,
\* two-column frame): isolated nodes and empty edges are not representable
IncidencesOnly(A, B) ==
  /\ Inc(B) = Inc(A) /\ NodeSet(B) = NonIsolated(A) /\ EdgeSet(B) = NonEmptyEdges(A) /\ Integrity(B)
\* hyperedge list: no edge labels - same member sets in the same edge order
EdgeOrderOnly(A, B) == MemberSeq(B) = MemberSeq(A) /\ Integrity(B)
\* hyperedge dict: labels and members, empty edges included, edge order kept
EdgeDict(A, B) == B.edges = A.edges /\ B.e2n = A.e2n /\ NodeSet(B) = NonIsolated(A) /\ Integrity(B)
\* bipartite graph: every node vertex is kept (isolated nodes too), incidences under the index maps
BipartiteGraph(A, B) ==
  /\ Inc(B) = Inc(A) /\ NodeSet(B) = NodeSet(A) /\ EdgeSet(B) = NonEmptyEdges(A) /\ Integrity(B)
\* standard dict / HIF dict: everything (orders are not part of the claim)
Everything(A, B) ==
  /\ NodeSet(B) = NodeSet(A) /\ EdgeSet(B) = EdgeSet(A) /\ B.e2n = A.e2n /\ B.n2e = A.n2e
  /\ B.nattr = A.nattr /\ B.eattr = A.eattr /\ B.gattr = A.gattr /\ Integrity(B) /\ UidFresh(B)
\* Hypergraph -> SimplicialComplex / SimplicialComplex -> Hypergraph
ToSimplicial(A, B) ==
  /\ NodeSet(B) = NodeSet(A) /\ B.nattr = A.nattr /\ B.gattr = A.gattr
  /\ \A e \in NonEmptyEdges(A) : HasSimplex(B, A.e2n[e])
  /\ \A e \in NonEmptyEdges(A) : (\A f \in EdgeSet(A) : A.e2n[f] = A.e2n[e] => f = e)
        => (e \in EdgeSet(B) /\ B.e2n[e] = A.e2n[e] /\ B.eattr[e] = A.eattr[e])
  /\ Integrity(B) /\ SCInv(B) /\ UidFresh(B)
SameNetwork(A, B) == Everything(A, B) /\ B.nodes = A.nodes /\ B.edges = A.edges
=============================================================================
