---------------------------- MODULE MC_MatrixLaws ----------------------------
(* The specification's own matrices satisfy the laws C12 states: the order-d  *)
(* Laplacian is symmetric, has zero row sums and equals a sum of squares      *)
(* (hence is positive semidefinite); the adjacency is symmetric with zero      *)
(* diagonal.  Checked on every hypergraph of the enumeration.                  *)
EXTENDS Matrices, Json
CONSTANTS NN, ME
VARIABLE st
Mask(M) == SumSet(LAMBDA n : 2 ^ n, M)
LastMask == IF st.edges = <<>> THEN -1 ELSE Mask(st.e2n[st.edges[Len(st.edges)]])
Init == st = EmptyHG
Next == \/ /\ st.edges = <<>> /\ Len(st.nodes) < NN /\ st' = AddNode(st, Len(st.nodes), NoAttr).st
        \/ /\ Len(st.edges) < ME
           /\ \E M \in SUBSET NodeSet(st) : Mask(M) >= LastMask /\ st' = AddEdge(st, SortSeqOf(M), None, NoAttr, st.nodes).st
Spec == Init /\ [][Next]_st
InvLaplacianLaws ==
  \A d \in 1..3 : LapIsSOS(st, d) /\ LapRowSumsZero(st, d) /\ LapSymmetric(st, d)
     /\ \A a, b \in NodeSet(st) : \A s \in 1..2 : Adj(st, d, s, TRUE, a, b) = Adj(st, d, s, TRUE, b, a) /\ Adj(st, d, s, TRUE, a, a) = 0
EmitState == PrintT(ToJson([kind |-> "state", st |-> ToJ(st)]))
=============================================================================
