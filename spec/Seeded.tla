--------------------------------- MODULE Seeded --------------------------------
(***************************************************************************)
(* C17: a seed fully determines every stochastic result.                     *)
(* Seeded-call state machine: within one interpreter the only state that     *)
(* could leak into a seeded call is the two global generators.  Actions:     *)
(*   Call(s)      the function under test with seed s (digest observed)      *)
(*   DrawPy/DrawNp   another consumer draws from the global Python / NumPy    *)
(*                   generator between two calls                             *)
(*   SeedPy/SeedNp   another consumer re-seeds a global generator            *)
(* The specification's calls are functions of their seed alone: memo[s] is   *)
(* fixed by the first call and every later call with that seed must return   *)
(* it.  TLC enumerates every schedule of the given length; the harness runs   *)
(* each one in a single interpreter and TraceSeeded checks the recorded       *)
(* digests against the memo rule.                                            *)
(***************************************************************************)
EXTENDS Naturals, Sequences, TLC, Json
CONSTANTS Depth, Seeds
VARIABLES hist, rng      \* rng: abstract state of the two global generators (a counter each)

Acts == {[a |-> "call", s |-> s] : s \in Seeds} \cup
        {[a |-> x, s |-> 0] : x \in {"draw_py", "draw_np", "seed_py", "seed_np"}}
Init == hist = <<>> /\ rng = [py |-> 0, np |-> 0]
Step(act) ==
  /\ hist' = Append(hist, act)
  /\ rng' = CASE act.a = "draw_py" -> [rng EXCEPT !.py = (@ + 1) % 3]
              [] act.a = "draw_np" -> [rng EXCEPT !.np = (@ + 1) % 3]
              [] act.a = "seed_py" -> [rng EXCEPT !.py = 0]
              [] act.a = "seed_np" -> [rng EXCEPT !.np = 0]
              [] OTHER -> rng   \* a seeded call leaves no trace that later calls may depend on
Next == Len(hist) < Depth /\ \E act \in Acts : Step(act)
Spec == Init /\ [][Next]_<<hist, rng>>

Calls(h) == {k \in DOMAIN h : h[k].a = "call"}
\* only schedules with at least two calls with equal seeds say anything
Interesting == \E i, j \in Calls(hist) : i < j /\ hist[i].s = hist[j].s
EmitHist == (Len(hist) = Depth /\ Interesting) => PrintT(ToJson([kind |-> "schedule", acts |-> hist]))
TypeOK == Len(hist) <= Depth
=============================================================================
