----------------------------- MODULE TraceUtils -----------------------------
(***************************************************************************)
(* X01 (growth, not one of the listed properties): calls of the helper      *)
(* functions and parametrised global measures recorded from the real code,   *)
(* decided against spec/Utils.tla.  One record per call:                     *)
(*   [rid, fn, res, anom, ...arguments..., out]                              *)
(***************************************************************************)
EXTENDS Utils, Json, IOUtils
Recs == ndJsonDeserialize(IOEnv.TRACE_FILE)
VARIABLE i

AsPairs(out) == {<<out[k][1], Range(out[k][2])>> : k \in DOMAIN out}
FunPairs(f) == {<<x, f[x]>> : x \in DOMAIN f}
SetsOf(out) == {Range(out[k]) : k \in DOMAIN out}
Val(r) == IF r.res = "ok" THEN <<"val", <<r.out[1], r.out[2]>>>>
          ELSE IF r.res = "ValueError" THEN <<"valueerror">> ELSE IF r.res = "liberr" THEN <<"liberr">> ELSE <<r.res>>
SameVal(a, b) == a[1] = b[1] /\ (a[1] # "val" \/ REq(a[2], b[2]))

\* entries of a recorded ttsv2 matrix that differ from the definition
Ttsv2Wrong(r) == LET t2 == TTSV2(r.mem, r.n, r.k, r.s)
                 IN {p \in (1..r.n) \X (1..r.n) : ~REq(r.out[p[1]][p[2]], t2[p[1]][p[2]])}
\* the diagonal entry of node v is computed by the series-convolution branch for an edge of l members
\* (v and at least one other node) when 2^(l-1) >= (r-2)(l-1)
ConvBranchDiag(r, v) == \E k \in DOMAIN r.mem : LET l == Len(r.mem[k]) IN
                          (v - 1) \in Range(r.mem[k]) /\ l >= 2 /\ 2 ^ (l - 1) >= (r.k - 2) * (l - 1)
Ttsv2Clause(r) == LET W == Ttsv2Wrong(r) IN
                  IF r.res # "ok" THEN "X01:ttsv2.raised"
                  ELSE IF \A p \in W : p[1] = p[2] /\ ConvBranchDiag(r, p[1]) THEN "X01:ttsv2.diagonal.convolution-branch"
                  ELSE IF \A p \in W : p[1] = p[2] THEN "X01:ttsv2.diagonal"
                  ELSE "X01:ttsv2.offdiagonal"

Holds(r) ==
  CASE r.fn = "powerset" -> r.res = "ok" /\ r.out = Powerset(r.s, r.b[1], r.b[2], r.b[3], r.k)
    [] r.fn = "subfaces" -> IF SubfacesRejected(r.edges, r.k) THEN r.res = "liberr"
                            ELSE r.res = "ok" /\ r.out = Subfaces(r.edges, r.k)
    [] r.fn = "dual_dict" -> r.res = "ok" /\ AsPairs(r.out) = FunPairs(DualDict(r.ids, r.mem)) /\ Len(r.out) = Cardinality(AsPairs(r.out))
    [] r.fn = "find_triangles" -> r.res = "ok" /\ SetsOf(r.out) = Triangles3(Range(r.s), SetsOf(r.edges))
                                  /\ Len(r.out) = Cardinality(SetsOf(r.out))
    [] r.fn = "binomial_sequence" -> IF r.k < 0 \/ r.n < 0 THEN r.res = "ValueError"
                                     ELSE r.res = "ok" /\ Range(r.out) = BinomialSequence(r.k, r.n)
                                          /\ Len(r.out) = Cardinality(Range(r.out))
    [] r.fn = "banerjee_coeff" -> r.res = "ok" /\ r.out = <<Banerjee(r.k, r.n)>>
    [] r.fn = "pairwise_incidence" -> r.res = "ok" /\ {<<r.out[k][1], Range(r.out[k][2])>> : k \in DOMAIN r.out}
                                                       = FunPairs(PairInc(r.ids, r.mem))
    [] r.fn = "trie" -> r.res = "ok" /\ \A k \in DOMAIN r.out : r.out[k][2] = TrieSearch(r.mem, r.out[k][1])
    [] r.fn = "min_where" -> r.res = "ok" /\ r.out = <<MinWhere(r.s, r.b)>>
    [] r.fn \in {"density", "incidence_density", "degree_histogram", "degree_counts", "is_possible_order",
                 "edge_neighborhood"} ->
         (LET S == FromJ(r.st) IN
         IF ~Integrity(S) THEN TRUE
         ELSE CASE r.fn = "density" -> SameVal(Val(r), DensityP(S, r.k, r.n, r.b[1]))
                [] r.fn = "incidence_density" -> SameVal(Val(r), IncDensityP(S, r.k, r.n, r.b[1]))
                [] r.fn = "degree_histogram" -> r.res = "ok" /\ <<r.out[1], r.out[2]>> = DegreeHistogram(S)
                [] r.fn = "degree_counts" -> r.res = "ok" /\ r.out = DegreeCountsOrd(S, r.k)
                [] r.fn = "is_possible_order" -> r.res = "ok" /\ r.out = <<IsPossibleOrder(S, r.k)>>
                [] r.fn = "edge_neighborhood" ->
                     r.res = "ok" /\ {<<r.out[k][1], Range(r.out[k][2])>> : k \in DOMAIN r.out} = EdgeNeighborhood(S, r.n, r.b[1])
                                  /\ Len(r.out) = Cardinality(S.n2e[r.n]))
    [] r.fn = "view_algebra" ->
         LET S == FromJ(r.st)
             all == IF r.k = 0 THEN S.nodes ELSE S.edges
             A == Range(r.s)  B == Range(r.ids)
         IN IF ~Integrity(S) THEN TRUE
            ELSE IF ~(A \cup B \subseteq Range(all)) THEN r.res = "liberr"
            ELSE r.res = "ok" /\ <<r.out[1], r.out[2], r.out[3], r.out[4]>> = ViewAlgebra(all, A, B)
                 /\ r.out[5] = ViewIds(all, A) /\ r.out[6] = <<A \cap B = {}>>
                 /\ r.out[7] = <<Cardinality(A)>>
    [] r.fn = "stat_summaries" ->
         LET S == FromJ(r.st)
             d == IF r.k = 0 THEN SeqDegree(S) ELSE SeqSize(S)
         IN IF ~Integrity(S) \/ d = <<>> THEN TRUE
            ELSE r.res = "ok" /\ REq(r.out[1], MedianOf(d)) /\ r.out[2] = <<ModeOf(d)>> /\ REq(r.out[3], VarianceOf(d))
                 /\ REq(r.out[4], RawMoment(d, 2)) /\ REq(r.out[5], RawMoment(d, 3)) /\ REq(r.out[6], CentralMoment(d, 2))
                 /\ REq(r.out[7], CentralMoment(d, 3)) /\ <<r.out[8], r.out[9]>> = UniqueCounts(d)
                 /\ REq(r.out[10], VarianceOf(d))
    [] r.fn = "container" ->
         \* len / iter / in / num_nodes / num_edges / network attribute access of the network object itself
         LET S == FromJ(r.st) IN
         IF ~Integrity(S) THEN TRUE
         ELSE r.res = "ok" /\ r.out[1] = <<Len(S.nodes), Len(S.nodes), Len(S.edges)>> /\ r.out[2] = S.nodes
              /\ \A k \in DOMAIN r.out[3] : r.out[3][k][2] = (r.out[3][k][1] \in NodeSet(S))
              /\ r.out[4] = <<"liberr">>   \* a network attribute that was never set
    [] r.fn = "custom_stat" ->
         \* a user function registered with nodestat_func / edgestat_func behaves like a built-in statistic
         LET S == FromJ(r.st)
             val(n) == 2 * Degree(S, n) + 1 IN
         IF ~Integrity(S) THEN TRUE
         ELSE r.res = "ok" /\ r.out[1] = [k \in DOMAIN S.nodes |-> <<S.nodes[k], val(S.nodes[k])>>]
              /\ r.out[2] = [k \in DOMAIN S.nodes |-> val(S.nodes[k])]
              /\ r.out[3] = SelectSeq(S.nodes, LAMBDA n : val(n) >= r.k)
              /\ r.out[4] = [k \in DOMAIN S.edges |-> 10 * SizeOf(S, S.edges[k])]
    [] r.fn = "ttsv1" ->
         \* the vector of rationals returned for the integer vector r.s, maximum edge size r.k
         r.res = "ok" /\ LET t1 == TTSV1(r.mem, r.n, r.k, r.s) IN \A a \in 1..r.n : REq(r.out[a], t1[a])
    [] r.fn = "ttsv2" -> r.res = "ok" /\ Ttsv2Wrong(r) = {}
    [] r.fn = "ashist" ->
         \* r.s values of the statistic, r.k number of bins (NoneArg: explicit edges r.ids), r.b = <<density>>
         \* out = <<centers, values, lows, highs, <<ylabel>>>>
         LET one == Cardinality(Range(r.s)) = 1
             E == IF r.k = NoneArg THEN [j \in DOMAIN r.ids |-> <<r.ids[j], 1>>]
                  ELSE HistEdgesInt(r.s, IF one THEN 1 ELSE r.k)
             nb == Len(E) - 1
             exp == IF r.b[1] THEN HistDensity(r.s, E) ELSE [j \in 1..nb |-> <<HistCounts(r.s, E)[j], 1>>]
         IN r.res = "ok" /\ Len(r.out[1]) = nb /\ Len(r.out[2]) = nb
            /\ \A j \in 1..nb : REq(r.out[1][j], HistCenters(E)[j]) /\ REq(r.out[2][j], exp[j])
                                /\ REq(r.out[3][j], E[j]) /\ REq(r.out[4][j], E[j + 1])
            /\ r.out[5] = <<IF r.b[1] THEN "Probability" ELSE "Count">>
    [] OTHER -> FALSE

Verdict(r) == IF r.anom # <<>> THEN <<"X01:anomaly." \o r.anom[1]>>
              ELSE IF Holds(r) THEN <<>> ELSE IF r.fn = "ttsv2" THEN <<Ttsv2Clause(r)>> ELSE <<"X01:" \o r.fn>>

Init == i = 0
Next == i < Len(Recs) /\ i' = i + 1
Spec == Init /\ [][Next]_i
Report == i = 0 \/ LET v == Verdict(Recs[i])
                   IN v = <<>> \/ PrintT(ToJson([rid |-> Recs[i].rid, v |-> v]))
Done == PrintT(ToJson([consumed |-> TLCGet("stats").diameter - 1, total |-> Len(Recs)]))
=============================================================================
