------------------------------ MODULE TraceC06D ------------------------------
(* C06 for directed hypergraphs: in / out / total degree and head / tail sizes  *)
(* (with their order= and degree= arguments) against the directed incidence.    *)
EXTENDS DHG, Json, IOUtils
Recs == ndJsonDeserialize(IOEnv.TRACE_FILE)
VARIABLE i

Mem(S, e) == S.tail[e] \cup S.head[e]
Deg(S, n) == Cardinality(S.nin[n] \cup S.nout[n])
OverNodes(S, f(_)) == [k \in DOMAIN S.nodes |-> f(S.nodes[k])]
OverEdges(S, f(_)) == [k \in DOMAIN S.edges |-> f(S.edges[k])]
CountOrd(S, E, k) == Cardinality({e \in E : Cardinality(Mem(S, e)) = k + 1})
CountDeg(S, N, d) == Cardinality({n \in N : Deg(S, n) = d})
Pairs(ids, vals) == [k \in DOMAIN ids |-> <<ids[k], vals[k]>>]

Seconds(p) == [k \in DOMAIN p |-> p[k][2]]

Clauses(S, o) ==
  << <<"view.nodes", o.vn = S.nodes /\ o.ve = S.edges>>,
     <<"degree", o.deg = Pairs(S.nodes, OverNodes(S, LAMBDA n : Deg(S, n)))>>,
     <<"in_degree", o.indeg = Pairs(S.nodes, OverNodes(S, LAMBDA n : Cardinality(S.nin[n])))>>,
     <<"out_degree", o.outdeg = Pairs(S.nodes, OverNodes(S, LAMBDA n : Cardinality(S.nout[n])))>>,
     <<"degree.order", \A k \in DOMAIN o.dego :
          /\ o.dego[k][2] = OverNodes(S, LAMBDA n : CountOrd(S, S.nin[n] \cup S.nout[n], o.dego[k][1]))
          /\ o.dego[k][3] = OverNodes(S, LAMBDA n : CountOrd(S, S.nin[n], o.dego[k][1]))
          /\ o.dego[k][4] = OverNodes(S, LAMBDA n : CountOrd(S, S.nout[n], o.dego[k][1]))>>,
     <<"size", o.size = Pairs(S.edges, OverEdges(S, LAMBDA e : Cardinality(Mem(S, e))))>>,
     <<"order", o.ordl = OverEdges(S, LAMBDA e : Cardinality(Mem(S, e)) - 1)>>,
     <<"tail_size", o.tails = OverEdges(S, LAMBDA e : Cardinality(S.tail[e]))
                    /\ o.tailo = OverEdges(S, LAMBDA e : Cardinality(S.tail[e]) - 1)>>,
     <<"head_size", o.heads = OverEdges(S, LAMBDA e : Cardinality(S.head[e]))
                    /\ o.heado = OverEdges(S, LAMBDA e : Cardinality(S.head[e]) - 1)>>,
     <<"stats.degree_arg", \A k \in DOMAIN o.sized :
          /\ o.sized[k][2] = OverEdges(S, LAMBDA e : CountDeg(S, Mem(S, e), o.sized[k][1]))
          /\ o.sized[k][3] = OverEdges(S, LAMBDA e : CountDeg(S, S.tail[e], o.sized[k][1]))
          /\ o.sized[k][4] = OverEdges(S, LAMBDA e : CountDeg(S, S.head[e], o.sized[k][1]))
          /\ o.sized[k][5] = OverEdges(S, LAMBDA e : CountDeg(S, S.tail[e], o.sized[k][1]) - 1)
          /\ o.sized[k][6] = OverEdges(S, LAMBDA e : CountDeg(S, S.head[e], o.sized[k][1]) - 1)>>,
     <<"handshake", SumSeq(Seconds(o.indeg)) = SumSeq(o.heads) /\ SumSeq(Seconds(o.outdeg)) = SumSeq(o.tails)>> >>

Verdict(r) ==
  \* a public view that disagrees with the tables it is a view of (members, memberships, ids, counts)
  IF r.viewanom # <<>> THEN <<"C06:" \o r.viewanom[1]>> ELSE
  \* the tables hold what the caller put into its own container after the call returned (the harness, as a caller,
  \* changes every container it handed over): views and statistics then describe something no call built.
  \* Other states that cannot be projected (labels created by calls outside the documented domain) are skipped.
  IF \E k \in DOMAIN r.postanom : r.postanom[k] = "unknown-node-label:'__caller_owned__'"
    THEN <<"C06:state-holds-the-callers-own-container">> ELSE
  IF r.postanom # <<>> THEN <<"tainted">> ELSE
  \* an accessor of a view / statistic raised: reported as such (its placeholder value is not compared)
  IF r.obs.errs # <<>> THEN <<"C06:raised." \o r.obs.errs[1]>> ELSE
  LET S == FromJ(r.post) IN
  IF ~DiIntegrity(S) THEN <<"tainted">>
  ELSE LET cl == Clauses(S, r.obs)
           bad == SelectSeq([k \in DOMAIN cl |-> k], LAMBDA k : ~cl[k][2])
       IN [k \in DOMAIN bad |-> "C06:" \o cl[bad[k]][1]]

Init == i = 0
Next == i < Len(Recs) /\ i' = i + 1
Spec == Init /\ [][Next]_i
Report == i = 0 \/ LET v == Verdict(Recs[i])
                   IN v = <<>> \/ PrintT(ToJson([rid |-> Recs[i].rid, v |-> v]))
Done == PrintT(ToJson([consumed |-> TLCGet("stats").diameter - 1, total |-> Len(Recs)]))
=============================================================================
