----------------------------- MODULE TraceNetOps -----------------------------
(***************************************************************************)
(* C19: derived networks against NetOps.  Record                            *)
(*   [rid, fn, src, src2, dst, res, b (five flags), ns, es, k, anom]         *)
(* src / src2 / dst are J states of the argument(s) and of the result (dst   *)
(* of a failed call is the empty state).                                     *)
(***************************************************************************)
EXTENDS NetOps, Json, IOUtils
Recs == ndJsonDeserialize(IOEnv.TRACE_FILE)
VARIABLE i

MatchUpToUid(o, R) == Content(o) = Content(R) /\ R.uid >= o.uid /\ UidFresh(R)

Check(r) ==
  LET S == FromJ(r.src)  R == FromJ(r.dst) IN
  CASE r.fn = "subhypergraph" ->
         << <<"subhypergraph", r.res = "ok" /\ MatchUpToUid(Sub(S, Range(r.ns), Range(r.es), r.b[1]), R)>> >>
    [] r.fn = "dual" ->
         << <<"dual", r.res = "ok" /\ IsDual(S, R)>> >>
    [] r.fn = "dualdual" ->   \* involution when there is no isolated node and no empty edge
         << <<"dual.involution",
              r.res = "ok" /\ ((\A n \in NodeSet(S) : S.n2e[n] # {}) /\ (\A e \in EdgeSet(S) : S.e2n[e] # {})
                 => (Range(R.nodes) = NodeSet(S) /\ Range(R.edges) = EdgeSet(S) /\ R.e2n = S.e2n /\ R.n2e = S.n2e
                     /\ R.nattr = S.nattr /\ R.eattr = S.eattr))>> >>
    [] r.fn = "lshift" ->
         << <<"lshift", r.res = "ok" /\ MatchUpToUid(Union(S, FromJ(r.src2)), R)>> >>
    [] r.fn = "complement" ->
         << <<"complement", r.res = "ok" /\ IsComplement(S, R)>> >>
    [] r.fn \in {"cut_to_order", "k_skeleton"} ->
         << <<r.fn, IF CutRejected(S, r.k) THEN r.res = "liberr"
                    ELSE r.res = "ok" /\ MatchUpToUid(CutToOrder(S, r.k), R)>> >>
    [] r.fn = "from_max_simplices" ->
         << <<"from_max_simplices", r.res = "ok" /\ MatchUpToUid(FromMaxSimplices(S), R)>> >>
    [] r.fn = "largest_connected_hypergraph" ->
         << <<"largest_connected_hypergraph", IF S.nodes = <<>> THEN r.res = "ok" => R.nodes = <<>>
                                              ELSE r.res = "ok" /\ IsLargestCC(S, R)>> >>
    [] r.fn = "convert_labels_to_integers" ->
         << <<"relabel.isomorphism", r.res = "ok" /\ MatchUpToUid(ConvertLabels(S), R)>> >>
    [] r.fn = "cleanup" ->
         LET outs == Cleanup(S, r.b[1], r.b[2], r.b[3], r.b[4], r.b[5]) IN
         << <<"cleanup.guarantees", r.res # "ok" \/ CleanupGuarantees(R, r.b[1], r.b[2], r.b[3], r.b[4], r.b[5])>>,
            <<"cleanup.exact", \E o \in outs : IF o.res = "ok" THEN r.res = "ok" /\ MatchUpToUid(AlignEdges(o.st, R, r.b[5]), R)
                                               ELSE r.res = o.res>> >>

Verdict(r) ==
  IF r.anom # <<>> THEN <<"C19:anomaly." \o r.anom[1]>>
  ELSE IF r.fn = "dicleanup" THEN
    (IF r.res # "ok" THEN <<"C19:dicleanup.raised." \o r.res>>
     ELSE IF DiCleanupOK(r.b[1], r.b[2], r.dn, r.di, r.dt, r.dh, r.rn, r.ri, r.rt, r.rh, r.on, r.oe) THEN <<>>
     ELSE <<"C19:dicleanup.guarantees">>)
  \* the argument was built by the harness through public calls only: if it is not a consistent network, that is a
  \* finding here as well (a derived network of an inconsistent one satisfies no definition)
  ELSE IF ~Integrity(FromJ(r.src)) THEN <<"C19:argument-built-by-public-calls-is-inconsistent">>
  ELSE IF r.fn = "cleanup" /\ Unspecified(FromJ(r.src), [OpDefaults EXCEPT !.name = "cleanup", !.b3 = r.b[3]])
    THEN <<"tainted">>
  ELSE LET cl == Check(r)
           bad == SelectSeq([k \in DOMAIN cl |-> k], LAMBDA k : ~cl[k][2])
       IN [k \in DOMAIN bad |-> "C19:" \o cl[bad[k]][1]]

Init == i = 0
Next == i < Len(Recs) /\ i' = i + 1
Spec == Init /\ [][Next]_i
Report == i = 0 \/ LET v == Verdict(Recs[i])
                   IN v = <<>> \/ PrintT(ToJson([rid |-> Recs[i].rid, v |-> v]))
Done == PrintT(ToJson([consumed |-> TLCGet("stats").diameter - 1, total |-> Len(Recs)]))
=============================================================================
