----------------------------- MODULE TraceConvert -----------------------------
(* C10 / C11 records: [rid, prop, conv, keep, src, dst, res, cls_ok, anom]     *)
(* keep names the projection that this conversion must preserve.               *)
EXTENDS Convert, Json, IOUtils
Recs == ndJsonDeserialize(IOEnv.TRACE_FILE)
VARIABLE i

Keeps(keep, A, B) ==
  CASE keep = "incidences" -> IncidencesOnly(A, B)
    [] keep = "edge_order" -> EdgeOrderOnly(A, B)
    [] keep = "edge_dict" -> EdgeDict(A, B)
    [] keep = "bipartite_graph" -> BipartiteGraph(A, B)
    [] keep = "everything" -> Everything(A, B)
    [] keep = "to_simplicial" -> ToSimplicial(A, B)
    [] keep = "same_network" -> SameNetwork(A, B)

Verdict(r) ==
  IF r.anom # <<>> THEN <<r.prop \o ":anomaly." \o r.anom[1]>>
  ELSE IF r.res # "ok" THEN <<r.prop \o ":" \o r.conv \o ".raised." \o r.res>>
  ELSE IF ~r.cls_ok THEN <<r.prop \o ":" \o r.conv \o ".class">>
  ELSE IF ~Keeps(r.keep, FromJ(r.src), FromJ(r.dst)) THEN <<r.prop \o ":" \o r.conv \o "." \o r.keep>>
  ELSE <<>>

Init == i = 0
Next == i < Len(Recs) /\ i' = i + 1
Spec == Init /\ [][Next]_i
Report == i = 0 \/ LET v == Verdict(Recs[i])
                   IN v = <<>> \/ PrintT(ToJson([rid |-> Recs[i].rid, v |-> v]))
Done == PrintT(ToJson([consumed |-> TLCGet("stats").diameter - 1, total |-> Len(Recs)]))
=============================================================================
