------------------------------ MODULE TraceC09 ------------------------------
(***************************************************************************)
(* C09: structural measures are invariant under relabelling and insertion   *)
(* order.  The specification contributes the QUOTIENT: one abstract state    *)
(* st and several realisations of it (label family x edge-id relabelling x   *)
(* insertion orders).  Every realisation's measures, mapped back to abstract *)
(* ids, must equal the label-free TLA+ definition where one exists           *)
(* (layer 1) and must agree with the first realisation where none exists     *)
(* (layer 2: Katz centrality, assortativities; integers scaled by 10^7).     *)
(***************************************************************************)
EXTENDS Derived, Json, IOUtils
Recs == ndJsonDeserialize(IOEnv.TRACE_FILE)
VARIABLE i

Nb(S, n) == NodeNbrs(S, n, 1)
NbOfSet(S, D) == UNION {Nb(S, d) : d \in D}
RECURSIVE RSum(_, _)   \* exact sum of rationals over a set (no enumeration of orderings: |X| may reach 10)
RSum(f(_), X) == IF X = {} THEN <<0, 1>> ELSE LET x == CHOOSE x \in X : TRUE IN RAdd(f(x), RSum(f, X \ {x}))
AvgNbrDeg(S, n) == IF Nb(S, n) = {} THEN <<0, 1>>
                   ELSE Rat(SumSet(LAMBDA m : Degree(S, m), Nb(S, n)), Cardinality(Nb(S, n)))
Triangles(S, n) == Cardinality({p \in Nb(S, n) \X Nb(S, n) : p[1] < p[2] /\ p[2] \in Nb(S, p[1])})
Clustering(S, n) == LET k == Cardinality(Nb(S, n)) IN IF k < 2 THEN <<0, 1>> ELSE Rat(2 * Triangles(S, n), k * (k - 1))
\* local clustering (Gallagher & Goldberg): extra overlap of every pair of edges at n
ExtraOverlap(S, e1, e2) ==
  LET D1 == S.e2n[e1] \ S.e2n[e2]  D2 == S.e2n[e2] \ S.e2n[e1] IN
  IF D1 \cup D2 = {} THEN <<0, 1>>
  ELSE Rat(Cardinality(NbOfSet(S, D1) \cap D2) + Cardinality(NbOfSet(S, D2) \cap D1), Cardinality(D1 \cup D2))
LocalClustering(S, n) ==
  LET dv == Degree(S, n) IN
  IF dv <= 1 THEN <<0, 1>>
  ELSE RMul(Rat(2, dv * (dv - 1)),
            RSum(LAMBDA p : ExtraOverlap(S, p[1], p[2]), {p \in S.n2e[n] \X S.n2e[n] : p[1] < p[2]}))
TwoNodeClustering(S, n) ==
  IF Nb(S, n) = {} THEN <<0, 1>>
  ELSE RDiv(RSum(LAMBDA v : Rat(Cardinality(S.n2e[n] \cap S.n2e[v]), Cardinality(S.n2e[n] \cup S.n2e[v])), Nb(S, n)),
            <<Cardinality(Nb(S, n)), 1>>)
Density(S) == IF S.edges = <<>> THEN <<0, 1>> ELSE Rat(Len(S.edges), 2 ^ Len(S.nodes) - 1)
IncDensity(S) == IF S.edges = <<>> THEN <<0, 1>> ELSE Rat(SumSeq(SeqSize(S)), Len(S.nodes) * Len(S.edges))

AllNodes(p, S) == {p[k][1] : k \in DOMAIN p} = NodeSet(S) /\ Len(p) = Len(S.nodes)
PerNode(p, S, f(_, _)) == AllNodes(p, S) /\ \A k \in DOMAIN p : REq(p[k][2], f(S, p[k][1]))
Close(a, b) == (a - b) <= 5 /\ (b - a) <= 5
SameVec(p, q) == Len(p) = Len(q) /\ \A k \in DOMAIN p : \E m \in DOMAIN q : q[m][1] = p[k][1] /\ Close(p[k][2], q[m][2])

Clauses(S, rs) ==
  << <<"average_neighbor_degree", \A k \in DOMAIN rs : PerNode(rs[k].and, S, AvgNbrDeg)>>,
     <<"clustering_coefficient", \A k \in DOMAIN rs : PerNode(rs[k].cc, S, Clustering)>>,
     <<"local_clustering_coefficient", \A k \in DOMAIN rs : PerNode(rs[k].lcc, S, LocalClustering)>>,
     <<"two_node_clustering_coefficient", \A k \in DOMAIN rs : PerNode(rs[k].tncc, S, TwoNodeClustering)>>,
     <<"density", \A k \in DOMAIN rs : REq(rs[k].dens, Density(S)) /\ REq(rs[k].idens, IncDensity(S))>>,
     <<"components", \A k \in DOMAIN rs : {Range(rs[k].comps[q]) : q \in DOMAIN rs[k].comps} = Components(S)>>,
     <<"maximal", \A k \in DOMAIN rs : Range(rs[k].max) = Range(MaximalOf(S, FALSE))>>,
     <<"duplicates", \A k \in DOMAIN rs : Len(rs[k].dups) = Len(S.edges) - Cardinality({S.e2n[e] : e \in EdgeSet(S)})
                                           /\ Range(rs[k].dups) \subseteq EdgeSet(S)>>,
     <<"shortest_path_length", \A k \in DOMAIN rs : \A q \in DOMAIN rs[k].dist :
          LET src == rs[k].dist[q][1]  d == DistFrom(S, src) IN
          \A z \in DOMAIN rs[k].dist[q][2] : LET t == rs[k].dist[q][2][z][1]  v == rs[k].dist[q][2][z][2]
                                               IN IF t \in DOMAIN d THEN v = d[t] ELSE v = -1>>,
     <<"degree_matrix", \A k \in DOMAIN rs : AllNodes(rs[k].degm, S) /\
                          \A q \in DOMAIN rs[k].degm : rs[k].degm[q][2] = Degree(S, rs[k].degm[q][1])>>,
     <<"simpliciality", \A k \in DOMAIN rs : Close(rs[k].sed, rs[1].sed) /\
                          \A q \in DOMAIN rs[k].simp : Close(rs[k].simp[q], rs[1].simp[q])>>,
     <<"katz_centrality", \A k \in DOMAIN rs : SameVec(rs[k].katz, rs[1].katz)
                                                 /\ (rs[k].katz = <<>> \/ AllNodes(rs[k].katz, S))>>,
     <<"stat_summaries", \A k \in DOMAIN rs : Len(rs[k].summ) = Len(rs[1].summ)
                                                 /\ \A q \in DOMAIN rs[k].summ : Close(rs[k].summ[q], rs[1].summ[q])>>,
     <<"normalized_hypergraph_laplacian.weighted", \A k \in DOMAIN rs : Len(rs[k].nlapw) = Len(rs[1].nlapw) /\
          \A q \in DOMAIN rs[k].nlapw : rs[k].nlapw[q][1] = rs[1].nlapw[q][1] /\ rs[k].nlapw[q][2] = rs[1].nlapw[q][2]
                                         /\ Close(rs[k].nlapw[q][3], rs[1].nlapw[q][3])>>,
     <<"degree_assortativity", \A k \in DOMAIN rs : Close(rs[k].assort, rs[1].assort)>>,
     <<"dynamical_assortativity", \A k \in DOMAIN rs : Close(rs[k].dassort, rs[1].dassort)>> >>

\* the complex generated by the same simplices does not depend on the order of simplices or members, nor
\* on adding them one by one or in bulk: the same node sets, each once
SetsOfC(q) == {Range(q[k]) : k \in DOMAIN q}
ComplexClause(r) ==
  <<"complex.insertion_order", \A k \in DOMAIN r.scs : SetsOfC(r.scs[k]) = SetsOfC(r.scs[1])
                                                        /\ Len(r.scs[k]) = Cardinality(SetsOfC(r.scs[k]))>>
Verdict(r) ==
  LET S == FromJ(r.st) IN
  \* the input was built by the harness through public calls only: if it is not even consistent the
  \* check cannot vouch for the property on it (and some call broke C01 / C03 on the way)
  IF ~Integrity(S) THEN <<"C09:input.not-a-consistent-network">>
  ELSE IF r.anom # <<>> THEN <<"C09:raised." \o r.anom[1]>>
  ELSE LET cl == Clauses(S, r.real) \o <<ComplexClause(r)>>
           bad == SelectSeq([k \in DOMAIN cl |-> k], LAMBDA k : ~cl[k][2])
       IN [k \in DOMAIN bad |-> "C09:" \o cl[bad[k]][1]]

Init == i = 0
Next == i < Len(Recs) /\ i' = i + 1
Spec == Init /\ [][Next]_i
Report == i = 0 \/ LET v == Verdict(Recs[i])
                   IN v = <<>> \/ PrintT(ToJson([rid |-> Recs[i].rid, v |-> v]))
Done == PrintT(ToJson([consumed |-> TLCGet("stats").diameter - 1, total |-> Len(Recs)]))
=============================================================================
