------------------------------- MODULE TraceBip -------------------------------
(* X02 (growth) records: [rid, fn, kind, res, mo, nodes, ids, mem, tails, heads,      *)
(* markers, emarkers, blines, arrows, anom]                                            *)
EXTENDS Scene, Json, IOUtils
Recs == ndJsonDeserialize(IOEnv.TRACE_FILE)
VARIABLE i

Verdict(r) ==
  IF r.anom # <<>> THEN <<"X02:anomaly." \o r.anom[1]>>
  ELSE IF r.res # "ok" THEN <<"X02:draw_bipartite.raised." \o r.res>>
  ELSE IF r.kind = "bip" THEN
     (IF ~BipMarkersOK(r.nodes, r.ids, LAMBDA k : Range(r.mem[k]), r.markers, r.emarkers) THEN <<"X02:draw_bipartite.markers">>
      ELSE IF BipScene(r.nodes, r.ids, r.mem, r.mo, r.markers, r.emarkers, r.blines) THEN <<>>
      ELSE IF r.mo = 0 /\ BipScene(r.nodes, r.ids, r.mem, None, r.markers, r.emarkers, r.blines)
        THEN <<"X02:draw_bipartite.max_order-0-read-as-None">>
      ELSE <<"X02:draw_bipartite.lines">>)
  ELSE
     (IF ~BipMarkersOK(r.nodes, r.ids, LAMBDA k : Range(r.tails[k]) \cup Range(r.heads[k]), r.markers, r.emarkers)
        THEN <<"X02:draw_bipartite.directed.markers">>
      ELSE IF DiBipScene(r.nodes, r.ids, r.tails, r.heads, r.mo, r.markers, r.emarkers, r.arrows) THEN <<>>
      ELSE IF r.mo = 0 /\ DiBipScene(r.nodes, r.ids, r.tails, r.heads, None, r.markers, r.emarkers, r.arrows)
        THEN <<"X02:draw_bipartite.max_order-0-read-as-None">>
      ELSE <<"X02:draw_bipartite.directed.arrows">>)

Init == i = 0
Next == i < Len(Recs) /\ i' = i + 1
Spec == Init /\ [][Next]_i
Report == i = 0 \/ LET v == Verdict(Recs[i])
                   IN v = <<>> \/ PrintT(ToJson([rid |-> Recs[i].rid, v |-> v]))
Done == PrintT(ToJson([consumed |-> TLCGet("stats").diameter - 1, total |-> Len(Recs)]))
=============================================================================
