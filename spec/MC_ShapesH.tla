----------------------------- MODULE MC_ShapesH -----------------------------
(***************************************************************************)
(* Input enumerator for the value-returning API (observation properties):   *)
(* every hypergraph on nodes 0..n-1 (n <= NN) with at most ME edges, each   *)
(* edge any subset of the nodes (empty edges, singletons, multi-edges and   *)
(* nested edges included), built with the HG operators.  Edges are added in *)
(* non-decreasing bitmask order, so each multiset of edges is one state;    *)
(* label and insertion-order variants are produced by the harness (gamma,   *)
(* permutations), which is exactly the quotient C09 quantifies over.        *)
(***************************************************************************)
EXTENDS HG, Json
CONSTANTS NN, ME, MinSize
VARIABLE st

Mask(M) == SumSet(LAMBDA n : 2 ^ n, M)
LastMask == IF st.edges = <<>> THEN -1 ELSE Mask(st.e2n[st.edges[Len(st.edges)]])

Init == st = EmptyHG
Next == \/ /\ st.edges = <<>> /\ Len(st.nodes) < NN
           /\ st' = AddNode(st, Len(st.nodes), NoAttr).st
        \/ /\ Len(st.edges) < ME
           /\ \E M \in SUBSET NodeSet(st) :
                /\ Cardinality(M) >= MinSize /\ Mask(M) >= LastMask
                /\ st' = AddEdge(st, SortSeqOf(M), None, NoAttr, st.nodes).st
Spec == Init /\ [][Next]_st

InvIntegrity == Integrity(st)
EmitState == PrintT(ToJson([kind |-> "state", st |-> ToJ(st)]))
=============================================================================
