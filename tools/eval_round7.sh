#!/bin/bash
# usage: eval7.sh [-s suf] prop...   /tmp/seed9/<prop>/_seed/{1,2} as <prop>_{16,17}
suf=""; if [ "$1" = "-s" ]; then suf=$2; shift 2; fi
for p in "$@"; do for k in 1 2; do
  [ -f /tmp/seed9/$p/_seed/$k/patch.diff ] || continue
  /verif/tools/try_seed.sh /tmp/seed9/$p/_seed/$k ${p}_$((k+15))$suf $p >> /tmp/seedlogs/summary7.txt 2>&1
  if [ -z "$suf" ]; then /verif/tools/verify_seed_tests.sh /tmp/seed9/$p/_seed/$k ${p}_$((k+15)) > /dev/null 2>&1; fi
done; done
