#!/bin/bash
# usage: tools/eval_round6.sh [-s suffix] <prop>...  evaluates /tmp/seed8/<prop>/_seed/{1,2,3} as <prop>_{13,14,15}<suffix>
# first evaluation: VERIF_CHECK=/tmp/verif_frozen/check (the harness as it stood when the round started)
suf=""; if [ "$1" = "-s" ]; then suf=$2; shift 2; fi
for p in "$@"; do for k in 1 2 3; do
  [ -f /tmp/seed8/$p/_seed/$k/patch.diff ] || continue
  /verif/tools/try_seed.sh /tmp/seed8/$p/_seed/$k ${p}_$((k+12))$suf $p >> /tmp/seedlogs/summary.txt 2>&1
  if [ -z "$suf" ]; then /verif/tools/verify_seed_tests.sh /tmp/seed8/$p/_seed/$k ${p}_$((k+12)) > /dev/null 2>&1; fi
done; done
