#!/bin/bash
# usage: tools/seed_sweep.sh <tier> <seed>...   runs every check under each seed; prints rc per (seed, property)
tier=$1; shift
for s in "$@"; do
  for p in C01 C02 C03 C04 C05 C06 C07 C08 C09 C10 C11 C12 C13 C14 C15 C16 C17 C18 C19 C20; do
    out=$(VERIF_SEED=$s ./check $p --tier $tier 2>&1); rc=$?
    echo "seed=$s $p rc=$rc $(echo "$out" | grep -c '^VIOLATION') violations"
    if [ $rc -ne 0 ]; then echo "$out" | grep -A1 "^VIOLATION\|MACHINERY" | head -20; fi
  done
done
