#!/bin/bash
# usage: tools/verify_seed_tests.sh <dir with patch.diff> <name>
# Runs the repository's test suite on a scratch worktree with the patch applied and prints the set of failing tests.
src=$1; name=$2
wt=/tmp/seedrun/t_$name
git -C /repo worktree remove --force $wt >/dev/null 2>&1
git -C /repo worktree add -q --detach $wt HEAD || exit 2
git -C $wt apply $src/patch.diff || { echo "$name: patch does not apply"; git -C /repo worktree remove --force $wt; exit 2; }
(cd $wt && PYTHONPATH=$wt timeout 1500 /venv/bin/python -m pytest -q -p no:cacheprovider --timeout=900 --continue-on-collection-errors -x --co -q >/dev/null 2>&1)
(cd $wt && PYTHONPATH=$wt timeout 1500 /venv/bin/python -m pytest -q -p no:cacheprovider --timeout=900 --continue-on-collection-errors 2>&1 | grep -E "^(FAILED|ERROR)|passed|failed" | sed 's/ - .*//' | sort > /tmp/seedlogs/tests_$name.txt)
git -C /repo worktree remove --force $wt
tail -1 /tmp/seedlogs/tests_$name.txt
