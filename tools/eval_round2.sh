#!/bin/bash
# usage: tools/eval_round2.sh <prop>...  evaluates /tmp/seed2/<prop>/_seed/{1,2,3} as <prop>_{4,5,6}
for p in "$@"; do for k in 1 2 3; do
  [ -f /tmp/seed2/$p/_seed/$k/patch.diff ] || continue
  tools/try_seed.sh /tmp/seed2/$p/_seed/$k ${p}_$((k+3)) $p >> /tmp/seedlogs/summary.txt 2>&1
  tools/verify_seed_tests.sh /tmp/seed2/$p/_seed/$k ${p}_$((k+3)) > /dev/null 2>&1
done; done
