#!/bin/bash
# usage: tools/eval_round3.sh <prop>...  evaluates /tmp/seed4/<prop>/_seed/{1,2,3} as <prop>_{7,8,9}
for p in "$@"; do for k in 1 2 3; do
  [ -f /tmp/seed4/$p/_seed/$k/patch.diff ] || continue
  tools/try_seed.sh /tmp/seed4/$p/_seed/$k ${p}_$((k+6)) $p >> /tmp/seedlogs/summary.txt 2>&1
  tools/verify_seed_tests.sh /tmp/seed4/$p/_seed/$k ${p}_$((k+6)) > /dev/null 2>&1
done; done
