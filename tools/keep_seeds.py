#!/venv/bin/python
"""Copies evaluated seeded changes into /verif/seeded/<id>/ with meta.json.
usage: tools/keep_seeds.py  (reads /tmp/seedlogs/summary.txt and /tmp/seed/<prop>/_seed/<k>/)"""
import json
import os
import re
import shutil

SUM = os.environ.get("SEED_SUMMARY", "/tmp/seedlogs/summary.txt")
# round 2: the author's summary was read before the first evaluation and the check was widened beforehand
# (so "first run" would overstate what the check as it stood could do)
PRE = set("C03-6 C06-5 C07-5 C08-4 C08-5 C08-6 C09-4 C09-5 C11-4 C11-5 C11-6 C12-5 C13-5 C14-4 C14-5 C15-4 C15-5 C15-6 "
          "C16-5 C16-6 C17-6 C18-4 C19-6 C20-4 C20-5 C20-6".split())
rows = {}
for line in open(SUM):
    m = re.match(r"^(C\d\d)_(\d+)([a-z]?)\s+demo_clean=(\S+) demo_patched=(\S+) \| (.*)$", line.strip())
    if not m:
        continue
    prop, k, rerun, c0, c1, rest = m.groups()
    checks = {}
    for part in rest.split("|"):
        mm = re.match(r"\s*(C\d\d) rc=(\d+) viol=(\d+)", part)
        if mm:
            checks[mm.group(1)] = {"rc": int(mm.group(2)), "violation_classes": int(mm.group(3))}
    key = (prop, k)
    e = rows.setdefault(key, {"runs": []})
    e["demo_clean"], e["demo_patched"] = c0, c1
    e["runs"].append({"after_strengthening": bool(rerun), "checks": checks})
for (prop, k), e in sorted(rows.items()):
    src = (f"/tmp/seed9/{prop}/_seed/{int(k) - 15}" if int(k) >= 16 else
           f"/tmp/seed/{prop}/_seed/{k}" if int(k) <= 3 else
           f"/tmp/seed2/{prop}/_seed/{int(k) - 3}" if int(k) <= 6 else
           f"/tmp/seed4/{prop}/_seed/{int(k) - 6}" if int(k) <= 9 else
           f"/tmp/seed5/{prop}/_seed/{int(k) - 9}" if int(k) <= 12 else
           f"/tmp/seed7/{prop}/_seed/{int(k) - 12}" if os.path.exists(f"/tmp/seed7/{prop}/_seed/{int(k) - 12}/patch.diff") else
           f"/tmp/seed8/{prop}/_seed/{int(k) - 12}")
    if not os.path.exists(f"{src}/patch.diff"):
        continue
    dst = f"/verif/seeded/{prop}-{k}"
    os.makedirs(dst, exist_ok=True)
    for f in ("patch.diff", "demo.py", "note.md"):
        if os.path.exists(f"{src}/{f}"):
            shutil.copy(f"{src}/{f}", f"{dst}/{f}")
    note = open(f"{src}/note.md").read() if os.path.exists(f"{src}/note.md") else ""
    final = e["runs"][-1]["checks"]
    tests = None
    tf = f"/tmp/seedlogs/tests_{prop}_{k}.txt"
    if os.path.exists(tf) and os.path.exists("/tmp/seedlogs/tests_BASE.txt"):
        base = {l.strip() for l in open("/tmp/seedlogs/tests_BASE.txt") if l.startswith(("FAILED", "ERROR"))}
        got = {l.strip() for l in open(tf) if l.startswith(("FAILED", "ERROR"))}
        tests = {"new_failures_vs_unmodified_tree": sorted(got - base), "summary": open(tf).read().strip().split("\n")[-1]}
    meta = {
        "id": f"{prop}-{k}", "breaks_property": prop,
        "origin": "written by an independent sub-agent that saw only the property text and a scratch worktree",
        "needs_to_manifest": note.strip(),
        "confirmed": {"demo_exit_on_unmodified_tree": e["demo_clean"], "demo_exit_with_patch": e["demo_patched"],
                      "existing_test_suite_with_patch": tests},
        "what_was_run": "tools/try_seed.sh: scratch worktree of /repo HEAD, git apply patch.diff, demo.py, then "
                        "XGI_REPO=<worktree> ./check <property> (quick tier)",
        "runs": e["runs"],
        "check_widened_before_first_evaluation": f"{prop}-{k}" in PRE,
        "detected": any(v["rc"] == 1 and v["violation_classes"] > 0 for v in final.values()),
        "detected_by": sorted(p for p, v in final.items() if v["rc"] == 1),
    }
    json.dump(meta, open(f"{dst}/meta.json", "w"), indent=1)
    print(meta["id"], "detected" if meta["detected"] else "MISSED", meta["detected_by"], tests["summary"] if tests else "")
