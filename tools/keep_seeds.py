#!/venv/bin/python
"""Copies evaluated seeded changes into /verif/seeded/<id>/ with meta.json.
usage: tools/keep_seeds.py  (reads /tmp/seedlogs/summary.txt and /tmp/seed/<prop>/_seed/<k>/)"""
import json
import os
import re
import shutil

SUM = "/tmp/seedlogs/summary.txt"
rows = {}
for line in open(SUM):
    m = re.match(r"^(C\d\d)_(\d)([a-z]?)\s+demo_clean=(\S+) demo_patched=(\S+) \| (.*)$", line.strip())
    if not m:
        continue
    prop, k, rerun, c0, c1, rest = m.groups()
    checks = {}
    for part in rest.split("|"):
        mm = re.match(r"\s*(C\d\d) rc=(\d+) viol=(\d+)", part)
        if mm:
            checks[mm.group(1)] = {"rc": int(mm.group(2)), "violation_classes": int(mm.group(3))}
    key = (prop, k)
    e = rows.setdefault(key, {"runs": []})
    e["demo_clean"], e["demo_patched"] = c0, c1
    e["runs"].append({"after_strengthening": bool(rerun), "checks": checks})
for (prop, k), e in sorted(rows.items()):
    src = f"/tmp/seed/{prop}/_seed/{k}" if int(k) <= 3 else f"/tmp/seed2/{prop}/_seed/{int(k) - 3}"
    if not os.path.exists(f"{src}/patch.diff"):
        continue
    dst = f"/verif/seeded/{prop}-{k}"
    os.makedirs(dst, exist_ok=True)
    for f in ("patch.diff", "demo.py", "note.md"):
        if os.path.exists(f"{src}/{f}"):
            shutil.copy(f"{src}/{f}", f"{dst}/{f}")
    note = open(f"{src}/note.md").read() if os.path.exists(f"{src}/note.md") else ""
    final = e["runs"][-1]["checks"]
    tests = None
    tf = f"/tmp/seedlogs/tests_{prop}_{k}.txt"
    if os.path.exists(tf) and os.path.exists("/tmp/seedlogs/tests_BASE.txt"):
        base = {l.strip() for l in open("/tmp/seedlogs/tests_BASE.txt") if l.startswith(("FAILED", "ERROR"))}
        got = {l.strip() for l in open(tf) if l.startswith(("FAILED", "ERROR"))}
        tests = {"new_failures_vs_unmodified_tree": sorted(got - base), "summary": open(tf).read().strip().split("\n")[-1]}
    meta = {
        "id": f"{prop}-{k}", "breaks_property": prop,
        "origin": "written by an independent sub-agent that saw only the property text and a scratch worktree",
        "needs_to_manifest": note.strip(),
        "confirmed": {"demo_exit_on_unmodified_tree": e["demo_clean"], "demo_exit_with_patch": e["demo_patched"],
                      "existing_test_suite_with_patch": tests},
        "what_was_run": "tools/try_seed.sh: scratch worktree of /repo HEAD, git apply patch.diff, demo.py, then "
                        "XGI_REPO=<worktree> ./check <property> (quick tier)",
        "runs": e["runs"],
        "detected": any(v["rc"] == 1 and v["violation_classes"] > 0 for v in final.values()),
        "detected_by": sorted(p for p, v in final.items() if v["rc"] == 1),
    }
    json.dump(meta, open(f"{dst}/meta.json", "w"), indent=1)
    print(meta["id"], "detected" if meta["detected"] else "MISSED", meta["detected_by"], tests["summary"] if tests else "")
