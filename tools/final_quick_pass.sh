#!/bin/bash
cd /verif
for p in "$@"; do s=$(date +%s); VERIF_SEED=1 ./check $p --tier quick > /tmp/seedlogs/final_$p.log 2>&1; rc=$?; echo "$p rc=$rc viol=$(grep -c ^VIOLATION /tmp/seedlogs/final_$p.log) $(( $(date +%s) - s ))s" >> /tmp/seedlogs/final.txt; done
