#!/bin/bash
# usage: tools/try_seed.sh <dir with patch.diff [demo.py]> <name> <prop> [<prop>...]
# Applies the seeded change to a scratch worktree of /repo HEAD and runs the given checks against it.
set -u
src=$1; name=$2; shift 2
wt=/tmp/seedrun/$name
mkdir -p /tmp/seedrun /tmp/seedlogs
git -C /repo worktree remove --force $wt >/dev/null 2>&1
git -C /repo worktree add -q --detach $wt HEAD || exit 2
if [ -f $src/demo.py ]; then
  (cd $wt && PYTHONPATH=$wt timeout 300 /venv/bin/python $src/demo.py >/dev/null 2>&1); c0=$?
else c0=na; fi
git -C $wt apply $src/patch.diff || { echo "$name: patch does not apply"; git -C /repo worktree remove --force $wt; exit 2; }
if [ -f $src/demo.py ]; then
  (cd $wt && PYTHONPATH=$wt timeout 300 /venv/bin/python $src/demo.py >/dev/null 2>&1); c1=$?
else c1=na; fi
res="$name demo_clean=$c0 demo_patched=$c1"
for p in "$@"; do
  XGI_VERIF_EVIDENCE=/tmp/seedlogs/evid_$name XGI_VERIF_REPLAYS=/tmp/seedlogs/replays_$name XGI_REPO=$wt timeout 1800 ${VERIF_CHECK:-/verif/check} $p > /tmp/seedlogs/$name.$p.log 2>&1; rc=$?
  n=$(grep -c '^VIOLATION' /tmp/seedlogs/$name.$p.log)
  res="$res | $p rc=$rc viol=$n"
done
echo "$res"
git -C /repo worktree remove --force $wt
