#!/bin/bash
# usage: tools/eval_round4.sh <prop>...  evaluates /tmp/seed5/<prop>/_seed/{1,2,3} as <prop>_{10,11,12}
for p in "$@"; do for k in 1 2 3; do
  [ -f /tmp/seed5/$p/_seed/$k/patch.diff ] || continue
  tools/try_seed.sh /tmp/seed5/$p/_seed/$k ${p}_$((k+9)) $p >> /tmp/seedlogs/summary.txt 2>&1
  tools/verify_seed_tests.sh /tmp/seed5/$p/_seed/$k ${p}_$((k+9)) > /dev/null 2>&1
done; done
