#!/venv/bin/python
"""Regenerates /verif/MANIFEST.json from the table below and validates it."""
import json
import os
import sys

HERE = os.path.dirname(os.path.dirname(os.path.abspath(__file__)))
TECH = ("explicit TLA+ specification (spec/*.tla) model-checked by TLC to a fixpoint over a bounded universe; "
        "bound to the code by conformance: TLC-enumerated (state, op) inputs replayed into the real objects and "
        "random call histories recorded from the real objects, every step validated by TLC against the same "
        "operators (trace validation)")

CLAIMED = {
    "C01": ("§4 C01", "Integrity (10 clauses) is an invariant of the exhaustive Hypergraph model (all mutators and "
            "in-place helpers, fixpoint) and is evaluated by TLC on the projected state of the real object after "
            "every call, returning or raising, of TLC-enumerated inputs and of random histories under nine label "
            "families."),
    "C02": ("§4 C02", "DiIntegrity (12 clauses: tail<->out, head<->in, no dangling id, one attribute record each) is "
            "an invariant of the exhaustive DiHypergraph model and is evaluated by TLC on the projected state of the "
            "real object after every call of TLC-enumerated inputs and random histories."),
    "C03": ("§4 C03", "Closed, NoDupSimplex, NoEmptySimplex, Integrity are invariants and RemoveExact, "
            "MaxOrderRespected action properties of the SimplicialComplex model (3 nodes, all five bulk formats, "
            "max_order, aliases); TLC evaluates them, and the logged has_simplex answers, on every implementation "
            "step, also RemoveExact for the bulk removal; id bunches are handed over as any iterable (one-shot "
            "iterators included), histories open with scripted bulk additions that raise midway."),
    "C04": ("§4 C04", "UidFresh is an invariant and AddsPreserve an action property of the exhaustive models; both "
            "are evaluated by TLC on every logged implementation step (the id counter is peeked, not consumed)."),
    "C05": ("§4 C05", "Refinement: every implementation step must be one of the outcomes the specification's "
            "operator admits for that call from the logged pre-state (full state comparison: order, both tables, "
            "attributes, result class), for TLC-enumerated inputs and random histories."),
    "C06": ("§4 C06", "TLC evaluates the set-theoretic definitions of spec/Derived.tla (degree, size, order, "
            "neighbours, lookup, duplicates, isolates, singletons, empty, maximal, the seven filter modes) on the "
            "logged state and compares them with what view and stat objects held across mutations report in "
            "asdict / aslist / asnumpy / aspandas / multi form, at every step of random histories and on every "
            "TLC-enumerated small hypergraph under relabellings and insertion orders."),
    "C07": ("§4 C07", "MC_Nets (slots holding networks; copy / pickle / own-class constructor / seven edits incl. "
            "in-place append to nested attribute values) is explored by TLC with Frame and CopyEqual as action "
            "properties; every behaviour is replayed on real objects of the three classes and TLC validates "
            "equality of the derived network, framing of every other live network and id freshness after each step."),
    "C18": ("§4 C18", "freeze is an action of the exhaustive class models and of the random histories (TLC decides "
            "FrozenImmutable / NotRejected / is_frozen on every step); in addition every public method and in-place "
            "library function, found by introspection, is probed on an unfrozen twin and on the frozen network and "
            "on subhypergraph results (generic and degenerate - empty - arguments), and TLC checks that whatever "
            "changes the twin is rejected; the copy of a frozen network must be editable with the documented effect."),
    "C08": ("§4 C08", "the API surface is enumerated by introspection at run time (about 180 callables: xgi functions "
            "taking a network, view methods / properties / stats in four formats, copy, dual, <<, in_place=False "
            "variants); each is called on realised TLC-enumerated states of the three classes, returned id "
            "containers are mutated, and TLC checks that the full projection of the input (order, both tables, "
            "attributes, next automatic id) is unchanged (Nets!Frame on a Query step)."),
    "C19": ("§4 C19", "NetOps.tla defines subhypergraph, dual (and its involution), <<, complement, cut_to_order / "
            "k_skeleton, from_max_simplices, largest component, integer relabelling and cleanup (exact result plus "
            "the five guarantees); TLC evaluates them on the logged argument and compares with the projected result "
            "of the real call for every TLC-enumerated small hypergraph x flag combinations / selections / orders; "
            "DiHypergraph.cleanup (isolates, relabel, in place or not) is decided by NetOps.DiCleanupOK."),
    "C10": ("§4 C10", "Convert.tla states, per representation, the projection that must survive (incidences / edge "
            "order / everything / class); TLC compares source and round-tripped network for every converter pair, the "
            "other-class constructors and re-inserted bipartite graphs on every TLC-enumerated small hypergraph under "
            "four label families."),
    "C11": ("§4 C11", "the same Convert.tla projections decided by TLC for real write / read round trips in a temporary "
            "directory (HIF incl. simplicial complexes and collections, JSON with casts, edge list, bipartite edge "
            "list, incidence matrix incl. 1 x m and n x 1, four delimiters), complexes assembled by their own mutators, "
            "free-text dataset names, and the file left by a refused second write."),
    "C12": ("§4 C12", "Matrices.tla defines incidence, adjacency (order, s, weighted), degree vector, intersection "
            "profile, clique motif, adjacency tensor, order-d / multi-order (exact rationals) / normalised Laplacians; "
            "TLC compares every returned matrix (sparse and dense, with index maps) entry by entry on TLC-enumerated "
            "hypergraphs under relabellings, and proves on the specification's own matrices symmetry, zero row sums "
            "and the sum-of-squares identity that certifies positive semidefiniteness."),
    "C13": ("§4 C13", "TLC evaluates on the logged integer boundary matrices (every order, default and random "
            "orientations, numeric / string / mixed labels, explicit simplex ids) that each column's non-zeros are "
            "+-1 exactly at the faces of its simplex, that consecutive products vanish, and that each Hodge Laplacian "
            "equals B_k^T B_k + B_{k+1} B_{k+1}^T (hence is symmetric PSD), for every complex generated from "
            "TLC-enumerated generator sets and for complexes reached by random histories of the complex's own mutators."),
    "C14": ("§4 C14", "the independent implementation is the TLA+ definition evaluated by TLC: components as closure "
            "of the node-edge relation, BFS distances by iterated neighbourhoods, clustering as the exact rational "
            "2T/(k(k-1)), and the vertex / link / weight sets of projection, s-line, bipartite graphs and the "
            "encapsulation DAG, on every TLC-enumerated hypergraph under relabellings."),
    "C09": ("§4 C09", "the specification supplies the quotient: each TLC-enumerated abstract hypergraph is realised "
            "four times (label families x edge-id permutations / gaps / strings x shuffled node, edge and member "
            "insertion orders); TLC compares every realisation's measures, mapped back to abstract ids, with the "
            "label-free TLA+ definitions (neighbour averages, three clustering coefficients, densities, components, "
            "maximal / duplicate edges) and, for Katz centrality and the assortativities, with the first realisation."),
    "C15": ("§4 C15", "TLC evaluates the combinatorial definitions by exhaustive enumeration (SUBSET of maximal edges) "
            "as exact rationals with a NaN marker, on every TLC-enumerated hypergraph without repeated edges x "
            "min_size x exclude_min_size x normalize, plus the [0,1] range and the value 1 on downward-closed inputs."),
    "C16": ("§4 C16", "a generator is a nondeterministic action whose admissible outputs are the predicate GenPost of "
            "Gen.tla (node set, allowed sizes, no repeats, p=0 / p=1, block patterns, degree bounds, exact edge sets of "
            "the deterministic generators, closure and clique structure of the simplicial generators); TLC evaluates it "
            "on every generated network over parameter grids x seeds, and checks the three index-decoding tables to be "
            "bijections for all n, m <= 7."),
    "C17": ("§4 C17", "Seeded.tla enumerates every schedule (two seeds, draws from and re-seeding of the global Python "
            "and NumPy generators in between) of bounded length; each schedule is executed in one interpreter for every "
            "function with a seed parameter (found by introspection), with arguments from a recipe table and from "
            "per-function argument boxes (degenerate block structures, odd sizes, probabilities 0 / 1 / tiny, sizes "
            "beyond size-dependent thresholds), and TLC checks the memo rule on the recorded output digests."),
    "C20": ("§4 C20", "Scene.tla defines the abstract scene (marker sequence, bag of lines, bag of polygon vertex sets) of "
            "a network and max_order, the layout domain and the barycenter identity; the harness draws with injective "
            "integer positions so that every artist coordinate maps back to a node, and TLC compares (max_order in "
            "{None, 0, 1, 2, 3})."),
}
NOTE = ("Trusted: TLC, the harness projection/adapter (self-tested on every run by corrupting recorded fields), "
        "and the bounded universes listed in the evidence; outside them only random histories.")

NOT_YET = {}


def main():
    props = [json.loads(l)["id"] for l in open(os.path.join(HERE, "properties.jsonl"))]
    checks = []
    na = []
    for p in props:
        if p in CLAIMED:
            ref, text = CLAIMED[p]
            checks.append({
                "property_id": p,
                "quick_cmd": f"./check {p} --tier quick",
                "thorough_cmd": f"./check {p} --tier thorough",
                "evidence_file": f"/verif/evidence/{p}.json",
                "replay_cmd_template": f"./check {p} --replay {{path}}",
                "engine": "tlc-conformance",
                "level_claimed": {"category": "model_checking", "text": text, "design_ref": ref},
                "level_note": NOTE,
                "technique": TECH,
            })
        else:
            na.append({"property_id": p, "reason": NOT_YET.get(p, "check not built yet (work in progress; see DESIGN.md §10 build order)")})
    m = {
        "version": 1,
        "setup_cmd": "./setup.sh",
        "hooks": {
            "guard": "XGI_VERIF_TRACE",
            "enable": "no source hooks are needed: the checks import xgi from /repo's working tree and observe state "
                      "through the public API (plus read-only peeks at private tables); XGI_VERIF_TRACE=1 only "
                      "activates the pytest tracing plugin that lives in /verif/harness",
            "baseline_off_cmd": "cd /repo && /venv/bin/python -m pytest -ra -q -p no:cacheprovider --timeout=900 "
                                "--continue-on-collection-errors",
            "source_commits": [],
            "add_only": True,
        },
        "engines": [{
            "name": "tlc-conformance", "path": "/verif/check",
            "serves_properties": sorted(CLAIMED),
            "kind_free_text": "TLA+ specification family + TLC (exhaustive model checking and batched trace "
                              "validation) + Python conformance harness",
        }],
        "checks": checks,
        "not_applicable": na,
        "notes": "Genuine defects repaired by fix: commits in /repo are listed in known_findings.json (status fixed).",
    }
    json.dump(m, open(os.path.join(HERE, "MANIFEST.json"), "w"), indent=1)
    try:
        import jsonschema

        jsonschema.validate(m, json.load(open("/root/.vp/MANIFEST.schema.json")))
        print("MANIFEST.json valid;", len(checks), "checks,", len(na), "not claimed")
    except ImportError:
        print("jsonschema not available; written without validation")


if __name__ == "__main__":
    main()
