#!/bin/bash
# usage: tools/eval_benign.sh <group> <k> <prop>...   runs the given checks against /tmp/seed3/<group>/_seed/<k>/patch.diff
# (a property-preserving change: every VIOLATION is a false alarm to investigate)
g=$1; k=$2; shift 2
tools/try_seed.sh /tmp/seed3/$g/_seed/$k B${g}_$k "$@" >> /tmp/seedlogs/benign.txt 2>&1
