#!/bin/bash
# usage: tools/thorough_sweep.sh <prop>...   runs the thorough tier of the given checks, prints rc and wall time
# (full output of each check: /tmp/thorough_logs/<prop>.log)
mkdir -p /tmp/thorough_logs
for p in "$@"; do
  s=$(date +%s)
  ./check $p --tier thorough > /tmp/thorough_logs/$p.log 2>&1; rc=$?
  echo "$p thorough rc=$rc $(( $(date +%s) - s ))s $(grep -c '^VIOLATION' /tmp/thorough_logs/$p.log) violations"
  if [ $rc -ne 0 ]; then grep -v Warn /tmp/thorough_logs/$p.log | tail -15 | cut -c1-400; fi
done
