#!/bin/bash
# usage: tools/thorough_sweep.sh <prop>...   runs the thorough tier of the given checks, prints rc and wall time
for p in "$@"; do
  s=$(date +%s)
  out=$(./check $p --tier thorough 2>&1); rc=$?
  echo "$p thorough rc=$rc $(( $(date +%s) - s ))s $(echo "$out" | grep -c '^VIOLATION') violations"
  if [ $rc -ne 0 ]; then echo "$out" | grep -A2 "^VIOLATION\|MACHINERY" | cut -c1-400 | head -30; fi
done
